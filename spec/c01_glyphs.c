/* C01 / C02 - glyph loading: the code that turns raw Gloc / Glat / glyf / loca / hmtx bytes into GlyphFace objects.
 *   (A) template sparse::sparse(I first, I last)  (src/inc/Sparse.h) instantiated with the two Glat iterators of
 *       src/GlyphCache.cpp (_glat_iterator<uint8> / <uint16>) and with a plain (key,value)-array iterator: establishes the
 *       representation predicate SPARSE_WF that unit c01_sparse_lookup (spec/c01_sparse.c) requires.
 *       Exact-size arrays need small keys (CBMC limit, see the allocator model); keys up to 0xFFFF: c01_sparse_ctor_widekeys (ghost
 *       memory); the iterators alone are proved for ranges of any length (c01_glat1_walk / c01_glat2_walk, loop contracts).
 *   (B) GlyphCache::Loader::read_glyph / read_box and the TtfUtil helpers they call (LocaLookup, GlyfLookup, GlyfBox, HorMetrics),
 *       GlyphCache::glyph (the caller: ownership of the face, the attribute array and the box).
 *   (C) GlyphCache::Loader::Loader: the Gloc consistency arithmetic (LOADER_WF, required by (B)).
 * Chain: c01_loader_gloc ensures LOADER_WF -> c01_read_glyph / c01_read_box require it; c01_read_glyph checks GLATn_RANGE -> assumed by
 * the c01_sparse_ctor_glat / c01_glat_walk harnesses; the constructor units check SPARSE_WF -> required by c01_sparse_lookup (c01_sparse.c)
 * and c01_sparse_capacity; c01_read_glyph ensures numsubs == popcount(bitmap) -> c01_cache_glyph sizes the box -> c01_read_box requires it.
 */
#include "types.h"
/*@unit {'name':'c01_sparse_ctor_pairs', 'props':['C01','C02'], 'entry':'h_ctor_pairs', 'kind':'bounded', 'unwind':5, 'defines':['NPAIRS=3','SPARSE_REAL'],
  'bound':'at most 3 (key,value) pairs, keys and values arbitrary 16-bit numbers (unsorted, duplicate, zero values included), executions whose array has at most 15 cells (largest stored key < 144; larger keys: unit c01_sparse_ctor_widekeys)',
  'claims':'sparse::sparse(I,I) on ANY sequence of <= 3 pairs: all writes inside the one array it allocates, the size computed by pass 1 is exactly what pass 2 fills, and on exit the object is unusable (map == 0: unsorted keys or allocation failure, nothing allocated stays behind) or satisfies SPARSE_WF as required by c01_sparse_lookup; every non-zero pair is found where operator[] looks for it'}@*/
/*@unit {'name':'c01_sparse_ctor_widekeys', 'props':['C01','C02'], 'entry':'h_ctor_wide', 'kind':'bounded', 'unwind':5, 'defines':['NPAIRS=3','WIDEKEYS'],
  'bound':'at most 3 (key,value) pairs; every key and value an arbitrary 16-bit number, so up to 1366 chunks and arrays of up to 5467 cells',
  'claims':'sparse::sparse(I,I) with keys up to 0xFFFF: the array is an object of exactly the requested (symbolic) size; the four stores of pass 2 (chunk offset twice, chunk mask, value cell) are routed through a ghost memory that CHECKS each address: chunk headers aligned and below m_nchunks, value cells behind the headers and inside the object; pass 2 fills exactly what pass 1 counted; SPARSE_WF (headers fit, offset + popcount(mask) <= total for every chunk written; the others are zero from calloc) or unusable object'}@*/
/*@unit {'name':'c01_sparse_ctor_glat1', 'props':['C01','C02'], 'entry':'h_ctor_glat1', 'kind':'bounded', 'unwind':5, 'defines':['SPARSE_REAL'],
  'bound':'Glat (version 1) attribute run of 4..8 bytes, all bytes arbitrary, in an exact-size buffer; executions whose array has at most 11 cells (keys < 96)',
  'claims':'sparse::sparse over _glat_iterator<uint8>: under the range condition read_glyph establishes (GLAT1_RANGE) every byte the iterator reads (key, run length, value) lies inside [first,last) (unbounded: c01_glat1_walk), and the object built satisfies SPARSE_WF or is unusable'}@*/
/*@unit {'name':'c01_sparse_ctor_glat2', 'props':['C01','C02'], 'entry':'h_ctor_glat2', 'kind':'bounded', 'unwind':5, 'defines':['SPARSE_REAL'],
  'bound':'Glat (version 2/3) attribute run of 6..10 bytes, all bytes arbitrary, in an exact-size buffer; executions whose array has at most 11 cells (keys < 96)',
  'claims':'sparse::sparse over _glat_iterator<uint16>: under the range condition read_glyph establishes (GLAT2_RANGE) every byte the iterator reads lies inside [first,last) (unbounded: c01_glat2_walk), and the object built satisfies SPARSE_WF or is unusable'}@*/
/*@unit {'name':'c01_glat1_walk', 'props':['C01','C02'], 'entry':'h_walk1', 'defines':['SPARSE_REAL','WALK=1'], 'min_loops':1,
  'claims':'_glat_iterator<uint8> driven by the protocol of both passes of sparse::sparse (i != last; *i; ++i) over a range satisfying GLAT1_RANGE, ANY length and contents: every byte read by key(), run(), operator* lies inside [first,last); at most len/2 pairs are produced; the loop terminates (loop contract, unbounded)'}@*/
/*@unit {'name':'c01_glat2_walk', 'props':['C01','C02'], 'entry':'h_walk2', 'defines':['SPARSE_REAL','WALK=2'], 'min_loops':1,
  'claims':'_glat_iterator<uint16> driven by the protocol of both passes of sparse::sparse over a range satisfying GLAT2_RANGE, ANY length and contents: every byte read lies inside [first,last); at most len/2 pairs are produced; the loop terminates (loop contract, unbounded)'}@*/
/*@unit {'name':'c01_sparse_total_fits', 'props':['C01','C02'], 'entry':'h_total_fits',
  'claims':'arithmetic lemma over the contracts of c01_loader_gloc (_num_attrs <= 0x3000), c01_read_glyph (attribute run <= 4 resp. 6 bytes per attribute) and c01_glat1/2_walk (at most len/2 pairs; key = 8- or 16-bit start + run index): the array sparse::sparse allocates for any glyph read_glyph accepts has fewer than 65536 cells, so key_type(vi - m_array.values) never truncates a chunk offset'}@*/

/*@include endian.tc@*/
bool nondet_bool(void); unsigned nondet_unsigned(void); size_t nondet_size_t(void); unsigned long nondet_ulong(void);

/* ================================================================== sparse (src/inc/Sparse.h, src/Sparse.cpp) */
typedef uint16 key_type; typedef uint16 mapped_type; typedef unsigned long mask_t;
typedef unsigned long ulong_t;
#define ulong_t(x) ((ulong_t)(x))
#define key_type(x) ((key_type)(x))
/*@extract {'file':'src/inc/Sparse.h', 'scope': r'class sparse\s*\{', 'kind':'range', 'start': r'static const unsigned char\s+SIZEOF_CHUNK', 'end': r';', 'end_inclusive': True,
   'subs':[[r'static const unsigned char\s+SIZEOF_CHUNK = ', 'enum { SIZEOF_CHUNK = ', 1], [r';', ' };', 1]]}@*/
/*@extract {'file':'src/inc/Sparse.h', 'scope': r'class sparse\s*\{', 'kind':'range', 'start': r'struct chunk\s*\{', 'end': r'\};', 'end_inclusive': True, 'pre':'typedef ', 'subs':[[r'\};', '} chunk;', 1]]}@*/
typedef struct sparse { union { chunk *map; mapped_type *values; } m_array; key_type m_nchunks; } sparse;     /* as in spec/c01_sparse.c (the members rule does not copy anonymous unions) */
/*@extract {'file':'src/Sparse.cpp', 'kind':'range', 'start': r'const sparse::chunk sparse::empty_chunk', 'end': r';', 'end_inclusive': True,
   'subs':[[r'const sparse::chunk sparse::empty_chunk', 'static const chunk empty_chunk', 1]]}@*/
typedef struct value_type { key_type first; mapped_type second; } value_type;       /* std::pair<sparse::key_type, sparse::mapped_type> */
static value_type mk_value_type(key_type k, mapped_type v) { value_type r; r.first = k; r.second = v; return r; }

#define POP1(x, i) (((x) >> (i)) & 1ul)
static unsigned pop64_spec(unsigned long x) { unsigned c = 0; c += POP1(x,0)+POP1(x,1)+POP1(x,2)+POP1(x,3)+POP1(x,4)+POP1(x,5)+POP1(x,6)+POP1(x,7)+POP1(x,8)+POP1(x,9)+POP1(x,10)+POP1(x,11)+POP1(x,12)+POP1(x,13)+POP1(x,14)+POP1(x,15);
  c += POP1(x,16)+POP1(x,17)+POP1(x,18)+POP1(x,19)+POP1(x,20)+POP1(x,21)+POP1(x,22)+POP1(x,23)+POP1(x,24)+POP1(x,25)+POP1(x,26)+POP1(x,27)+POP1(x,28)+POP1(x,29)+POP1(x,30)+POP1(x,31);
  c += POP1(x,32)+POP1(x,33)+POP1(x,34)+POP1(x,35)+POP1(x,36)+POP1(x,37)+POP1(x,38)+POP1(x,39)+POP1(x,40)+POP1(x,41)+POP1(x,42)+POP1(x,43)+POP1(x,44)+POP1(x,45)+POP1(x,46)+POP1(x,47);
  c += POP1(x,48)+POP1(x,49)+POP1(x,50)+POP1(x,51)+POP1(x,52)+POP1(x,53)+POP1(x,54)+POP1(x,55)+POP1(x,56)+POP1(x,57)+POP1(x,58)+POP1(x,59)+POP1(x,60)+POP1(x,61)+POP1(x,62)+POP1(x,63); return c; }

/* ---- allocator model: grzeroalloc<T>(n) == calloc(n, sizeof(T)) (src/inc/Main.h); may fail; the request is logged.
 *      CBMC cannot cope with chunk-sized stores at symbolic offsets into an object of symbolic (or large constant) size, nor with
 *      a pointer that may denote one of many objects.  So the harness picks the size g_T up front (one call of the constructor
 *      per CONSTANT g_T, macro RUNT), allocates a zeroed object of exactly g_T cells, and the model hands it out when - and only
 *      when - the constructor asks for exactly g_T cells (other executions belong to another g_T; sizes above the largest g_T
 *      are the bound of the unit).  The object is therefore always exactly as large as the request. */
size_t g_alloc_cells; unsigned g_nalloc; const void *g_alloc_p;
size_t g_T; void *g_pre;
#ifdef WIDEKEYS
static mapped_type *grzeroalloc_mapped(size_t n)           /* exact symbolic size; contents live in the ghost memory below */
{
    g_alloc_cells = n; ++g_nalloc;
    void *p = nondet_bool() ? (void *)0 : malloc(n * sizeof(mapped_type));
    g_alloc_p = p; return (mapped_type *)p;
}
#else
static mapped_type *grzeroalloc_mapped(size_t n)
{
    g_alloc_cells = n; ++g_nalloc;
    __CPROVER_assume(n == g_T);                             /* see above: g_T ranges over every size up to the unit's bound */
    void *p = nondet_bool() ? (void *)0 : g_pre;
    g_alloc_p = p; return (mapped_type *)p;
}
#endif
#define RUNT(T, CALL) if (w_T == (T)) { g_T = (T); g_pre = calloc((T), sizeof(mapped_type)); __CPROVER_assume(g_pre); CALL; }
#define RUNT_4_11(CALL) RUNT(4, CALL) RUNT(5, CALL) RUNT(6, CALL) RUNT(7, CALL) RUNT(8, CALL) RUNT(9, CALL) RUNT(10, CALL) RUNT(11, CALL)
#define RUNT_4_15(CALL) RUNT_4_11(CALL) RUNT(12, CALL) RUNT(13, CALL) RUNT(14, CALL) RUNT(15, CALL)

/* ================================================================== the Glat iterators (src/GlyphCache.cpp, anonymous namespace) */
typedef struct glat_it {
/*@extract {'kind':'members', 'file':'src/GlyphCache.cpp', 'scope': r'class _glat_iterator\s*\{', 'names':['_e','_v','_n']}@*/
} glat_it;
#define GLAT_IT_SUBS1 0
/* instantiation W = uint8 */
/*@extract {'file':'src/GlyphCache.cpp', 'scope': r'class _glat_iterator\s*\{', 'sig': r'unsigned short\s+key\(\) const', 'emit':'static unsigned short glat1_key(const glat_it *self)',
   'subs':[[r'\bW\b', 'uint8', 0], [r'be::peek<(\w+)>\(', r'be_peek_\1(', 0]], 'self':['_e','_v','_n']}@*/
/*@extract {'file':'src/GlyphCache.cpp', 'scope': r'class _glat_iterator\s*\{', 'sig': r'unsigned int\s+run\(\) const', 'emit':'static unsigned int glat1_run(const glat_it *self)',
   'subs':[[r'\bW\b', 'uint8', 0], [r'be::peek<(\w+)>\(', r'be_peek_\1(', 0]], 'self':['_e','_v','_n']}@*/
/*@extract {'file':'src/GlyphCache.cpp', 'scope': r'class _glat_iterator\s*\{', 'sig': r'void\s+advance_entry\(\)', 'emit':'static void glat1_advance_entry(glat_it *self)',
   'subs':[[r'\bW\b', 'uint8', 0], [r'be::skip<(\w+)>\((\w+)', r'be_skip_\1(&\2', 0]], 'self':['_e','_v','_n']}@*/
/*@extract {'file':'src/GlyphCache.cpp', 'scope': r'class _glat_iterator\s*\{', 'sig': r'_glat_iterator\(const void \* glat=0\)', 'ctor':True, 'casts':True, 'emit':'static void glat1_ctor(glat_it *self, const void *glat)',
   'subs':[[r'\bW\b', 'uint8', 0]], 'self':['_e','_v','_n']}@*/
/*@extract {'file':'src/GlyphCache.cpp', 'scope': r'class _glat_iterator\s*\{', 'sig': r'_glat_iterator<W> & operator \+\+ \(\)', 'emit':'static glat_it *glat1_inc(glat_it *self)',
   'subs':[[r'be::skip<(\w+)>\((\w+)', r'be_skip_\1(&\2', 0], [r'\brun\(\)', 'glat1_run(self)', 0], [r'\badvance_entry\(\)', 'glat1_advance_entry(self)', 0], [r'return \*this;', 'return self;', 0]], 'self':['_e','_v','_n']}@*/
/*@extract {'file':'src/GlyphCache.cpp', 'scope': r'class _glat_iterator\s*\{', 'sig': r'bool operator == \(const _glat_iterator<W> & rhs\)', 'emit':'static bool glat1_eq(glat_it *self, const glat_it *rhs)',
   'subs':[[r'rhs\.', 'rhs->', 0]], 'self':['_e','_v','_n']}@*/
/*@extract {'file':'src/GlyphCache.cpp', 'scope': r'class _glat_iterator\s*\{', 'sig': r'bool operator != \(const _glat_iterator<W> & rhs\)', 'emit':'static bool glat1_ne(glat_it *self, const glat_it *rhs)',
   'subs':[[r'operator==\(rhs\)', 'glat1_eq(self, rhs)', 0]]}@*/
/*@extract {'file':'src/GlyphCache.cpp', 'scope': r'class _glat_iterator\s*\{', 'sig': r'value_type\s+operator \* \(\) const', 'emit':'static value_type glat1_deref(const glat_it *self)',
   'subs':[[r'return value_type\(', 'return mk_value_type(', 0], [r'\bkey\(\)', 'glat1_key(self)', 0], [r'be::peek<(\w+)>\(', r'be_peek_\1(', 0]], 'self':['_e','_v','_n']}@*/
/* instantiation W = uint16 */
/*@extract {'file':'src/GlyphCache.cpp', 'scope': r'class _glat_iterator\s*\{', 'sig': r'unsigned short\s+key\(\) const', 'emit':'static unsigned short glat2_key(const glat_it *self)',
   'subs':[[r'\bW\b', 'uint16', 0], [r'be::peek<(\w+)>\(', r'be_peek_\1(', 0]], 'self':['_e','_v','_n']}@*/
/*@extract {'file':'src/GlyphCache.cpp', 'scope': r'class _glat_iterator\s*\{', 'sig': r'unsigned int\s+run\(\) const', 'emit':'static unsigned int glat2_run(const glat_it *self)',
   'subs':[[r'\bW\b', 'uint16', 0], [r'be::peek<(\w+)>\(', r'be_peek_\1(', 0]], 'self':['_e','_v','_n']}@*/
/*@extract {'file':'src/GlyphCache.cpp', 'scope': r'class _glat_iterator\s*\{', 'sig': r'void\s+advance_entry\(\)', 'emit':'static void glat2_advance_entry(glat_it *self)',
   'subs':[[r'\bW\b', 'uint16', 0], [r'be::skip<(\w+)>\((\w+)', r'be_skip_\1(&\2', 0]], 'self':['_e','_v','_n']}@*/
/*@extract {'file':'src/GlyphCache.cpp', 'scope': r'class _glat_iterator\s*\{', 'sig': r'_glat_iterator\(const void \* glat=0\)', 'ctor':True, 'casts':True, 'emit':'static void glat2_ctor(glat_it *self, const void *glat)',
   'subs':[[r'\bW\b', 'uint16', 0]], 'self':['_e','_v','_n']}@*/
/*@extract {'file':'src/GlyphCache.cpp', 'scope': r'class _glat_iterator\s*\{', 'sig': r'_glat_iterator<W> & operator \+\+ \(\)', 'emit':'static glat_it *glat2_inc(glat_it *self)',
   'subs':[[r'be::skip<(\w+)>\((\w+)', r'be_skip_\1(&\2', 0], [r'\brun\(\)', 'glat2_run(self)', 0], [r'\badvance_entry\(\)', 'glat2_advance_entry(self)', 0], [r'return \*this;', 'return self;', 0]], 'self':['_e','_v','_n']}@*/
/*@extract {'file':'src/GlyphCache.cpp', 'scope': r'class _glat_iterator\s*\{', 'sig': r'bool operator == \(const _glat_iterator<W> & rhs\)', 'emit':'static bool glat2_eq(glat_it *self, const glat_it *rhs)',
   'subs':[[r'rhs\.', 'rhs->', 0]], 'self':['_e','_v','_n']}@*/
/*@extract {'file':'src/GlyphCache.cpp', 'scope': r'class _glat_iterator\s*\{', 'sig': r'bool operator != \(const _glat_iterator<W> & rhs\)', 'emit':'static bool glat2_ne(glat_it *self, const glat_it *rhs)',
   'subs':[[r'operator==\(rhs\)', 'glat2_eq(self, rhs)', 0]]}@*/
/*@extract {'file':'src/GlyphCache.cpp', 'scope': r'class _glat_iterator\s*\{', 'sig': r'value_type\s+operator \* \(\) const', 'emit':'static value_type glat2_deref(const glat_it *self)',
   'subs':[[r'return value_type\(', 'return mk_value_type(', 0], [r'\bkey\(\)', 'glat2_key(self)', 0], [r'be::peek<(\w+)>\(', r'be_peek_\1(', 0]], 'self':['_e','_v','_n']}@*/
static glat_it mk_glat1(const void *g) { glat_it it; glat1_ctor(&it, g); return it; }     /* the temporary glat_iterator(p) */
static glat_it mk_glat2(const void *g) { glat_it it; glat2_ctor(&it, g); return it; }

/* a plain input iterator over an array of pairs: the most general sequence any iterator can produce */
typedef struct pair_it { const value_type *p; } pair_it;
static bool pair_ne(pair_it *a, const pair_it *b) { return a->p != b->p; }
static pair_it *pair_inc(pair_it *a) { ++a->p; return a; }
static value_type pair_deref(const pair_it *a) { return *a->p; }

/* ---- the constructor template, instantiated three times (operators of I mapped onto the functions above) */
size_t g_last_cell;          /* ghost: index of the cell written by the latest `*vi = v.second` */
unsigned g_nwrites;          /* ghost: number of value cells written */
/*@extract {'if':'SPARSE_REAL', 'file':'src/inc/Sparse.h', 'sig': r'sparse::sparse\(I attr, const I last\)', 'ctor':True, 'casts':True, 'strip':['graphite2::sparse::'],
   'emit':'void sparse_ctor_pairs(sparse *self, pair_it attr, const pair_it last)',
   'subs':[[r'\bI\b', 'pair_it', 0], [r'const typename std::iterator_traits<pair_it>::value_type', 'const value_type', 0],
           [r'\bi != last', 'pair_ne(&i, &last)', 0], [r'\battr != last', 'pair_ne(&attr, &last)', 0], [r'\+\+i\b', 'pair_inc(&i)', 0], [r'\+\+attr\b', 'pair_inc(&attr)', 0],
           [r'= \*i;', '= pair_deref(&i);', 0], [r'= \*attr;', '= pair_deref(&attr);', 0], [r'grzeroalloc<mapped_type>\(', 'grzeroalloc_mapped(', 0]],
   'inserts':[[2, 'g_last_cell = (size_t)(vi - self->m_array.values); ++g_nwrites;', 'body_end']],
   'self':['m_array','m_nchunks']}@*/
/*@extract {'if':'SPARSE_REAL', 'file':'src/inc/Sparse.h', 'sig': r'sparse::sparse\(I attr, const I last\)', 'ctor':True, 'casts':True, 'strip':['graphite2::sparse::'],
   'emit':'void sparse_ctor_glat1(sparse *self, glat_it attr, const glat_it last)',
   'subs':[[r'\bI\b', 'glat_it', 0], [r'const typename std::iterator_traits<glat_it>::value_type', 'const value_type', 0],
           [r'\bi != last', 'glat1_ne(&i, &last)', 0], [r'\battr != last', 'glat1_ne(&attr, &last)', 0], [r'\+\+i\b', 'glat1_inc(&i)', 0], [r'\+\+attr\b', 'glat1_inc(&attr)', 0],
           [r'= \*i;', '= glat1_deref(&i);', 0], [r'= \*attr;', '= glat1_deref(&attr);', 0], [r'grzeroalloc<mapped_type>\(', 'grzeroalloc_mapped(', 0]],
   'inserts':[[2, 'g_last_cell = (size_t)(vi - self->m_array.values); ++g_nwrites;', 'body_end']],
   'self':['m_array','m_nchunks']}@*/
/*@extract {'if':'SPARSE_REAL', 'file':'src/inc/Sparse.h', 'sig': r'sparse::sparse\(I attr, const I last\)', 'ctor':True, 'casts':True, 'strip':['graphite2::sparse::'],
   'emit':'void sparse_ctor_glat2(sparse *self, glat_it attr, const glat_it last)',
   'subs':[[r'\bI\b', 'glat_it', 0], [r'const typename std::iterator_traits<glat_it>::value_type', 'const value_type', 0],
           [r'\bi != last', 'glat2_ne(&i, &last)', 0], [r'\battr != last', 'glat2_ne(&attr, &last)', 0], [r'\+\+i\b', 'glat2_inc(&i)', 0], [r'\+\+attr\b', 'glat2_inc(&attr)', 0],
           [r'= \*i;', '= glat2_deref(&i);', 0], [r'= \*attr;', '= glat2_deref(&attr);', 0], [r'grzeroalloc<mapped_type>\(', 'grzeroalloc_mapped(', 0]],
   'inserts':[[2, 'g_last_cell = (size_t)(vi - self->m_array.values); ++g_nwrites;', 'body_end']],
   'self':['m_array','m_nchunks']}@*/


/* ---- wide keys: the same constructor text; its four stores into (and one load from) the array go through a ghost memory that
 *      checks every address against the array object (exact symbolic size; never written, so CBMC can handle it) */
#ifdef WIDEKEYS
#define GH 5                                  /* headers touched: chunk 0 and one per pair */
size_t gh_idx[GH]; key_type gh_off[GH]; unsigned long gh_mask[GH]; unsigned gh_n;
static unsigned gh_find(const sparse *self, const chunk *ci)
{
    __CPROVER_assert(SAME(ci, self->m_array.map) && OFF(ci) % sizeof(chunk) == 0 && OFF(ci) + sizeof(chunk) <= (size_t)self->m_nchunks * sizeof(chunk), "sparse ctor (wide keys): a chunk header address is aligned and below m_nchunks");
    __CPROVER_assert(OFF(ci) + sizeof(chunk) <= OBJSZ(ci), "sparse ctor (wide keys): the chunk header lies inside the array object");
    size_t c = OFF(ci) / sizeof(chunk);
#define GHF(j) if (gh_n > (j) && gh_idx[j] == c) return (j);
    GHF(0) GHF(1) GHF(2) GHF(3) GHF(4)
    __CPROVER_assert(gh_n < GH, "ghost memory large enough");
    gh_idx[gh_n] = c; gh_off[gh_n] = 0; gh_mask[gh_n] = 0;            /* grzeroalloc: untouched memory is zero */
    return gh_n++;
}
static void W_SET_OFFSET(sparse *self, chunk *ci, key_type v) { gh_off[gh_find(self, ci)] = v; }
static key_type W_GET_OFFSET(sparse *self, chunk *ci) { return gh_off[gh_find(self, ci)]; }
static void W_OR_MASK(sparse *self, chunk *ci, unsigned long m) { unsigned j = gh_find(self, ci); gh_mask[j] = (gh_mask[j] | m) & ((1ul << SIZEOF_CHUNK) - 1); }
static void W_SET_VALUE(sparse *self, mapped_type *vi, mapped_type v)
{
    __CPROVER_assert(SAME(vi, self->m_array.values) && OFF(vi) % sizeof(mapped_type) == 0 && OFF(vi) >= (size_t)self->m_nchunks * sizeof(chunk), "sparse ctor (wide keys): a value cell lies behind the chunk headers");
    __CPROVER_assert(OFF(vi) + sizeof(mapped_type) <= OBJSZ(vi), "sparse ctor (wide keys): the value cell lies inside the array object");
}
#endif
/*@extract {'if':'WIDEKEYS', 'file':'src/inc/Sparse.h', 'sig': r'sparse::sparse\(I attr, const I last\)', 'ctor':True, 'casts':True, 'strip':['graphite2::sparse::'],
   'emit':'void sparse_ctor_wide(sparse *self, pair_it attr, const pair_it last)',
   'subs':[[r'\bI\b', 'pair_it', 0], [r'const typename std::iterator_traits<pair_it>::value_type', 'const value_type', 0],
           [r'\bi != last', 'pair_ne(&i, &last)', 0], [r'\battr != last', 'pair_ne(&attr, &last)', 0], [r'\+\+i\b', 'pair_inc(&i)', 0], [r'\+\+attr\b', 'pair_inc(&attr)', 0],
           [r'= \*i;', '= pair_deref(&i);', 0], [r'= \*attr;', '= pair_deref(&attr);', 0], [r'grzeroalloc<mapped_type>\(', 'grzeroalloc_mapped(', 0],
           [r'ci->offset = ([^;]*);', r'W_SET_OFFSET(self, ci, \1);', 0], [r'ci->offset\b', 'W_GET_OFFSET(self, ci)', 0],
           [r'ci->mask \|= ([^;]*);', r'W_OR_MASK(self, ci, \1);', 0], [r'\*vi = v\.second;', 'W_SET_VALUE(self, vi, v.second);', 0]],
   'inserts':[[2, 'g_last_cell = (size_t)(vi - self->m_array.values); ++g_nwrites;', 'body_end']],
   'self':['m_array','m_nchunks']}@*/

/* ---- SPARSE_WF: the text of the preconditions of sparse_lookup in spec/c01_sparse.c (g_sp: the object, g_total: cells of the array),
 *      without that unit's own tractability bound g_total <= 256 (see the final report) */
const sparse *g_sp; size_t g_total;
#define CHUNK_OF(k) (g_sp->m_array.map[(k) / SIZEOF_CHUNK])
#define BIT_OF(k)   ((CHUNK_OF(k).mask >> (SIZEOF_CHUNK - 1 - ((k) % SIZEOF_CHUNK))) & 1ul)
#define RANK_OF(k)  pop64_spec(CHUNK_OF(k).mask >> (SIZEOF_CHUNK - ((k) % SIZEOF_CHUNK)))      /* set bits before key k in its chunk */
#define SPARSE_WF_1(self)    ((self) == g_sp && g_total >= sizeof(chunk) / sizeof(mapped_type) && (size_t)(self)->m_nchunks * sizeof(chunk) <= g_total * sizeof(mapped_type))
#define SPARSE_WF_2(self)    (OFF((self)->m_array.values) == 0 && OBJSZ((self)->m_array.values) == g_total * sizeof(mapped_type))
#define SPARSE_WF_3(self, k) ((k) / SIZEOF_CHUNK >= (self)->m_nchunks || (size_t)CHUNK_OF(k).offset + pop64_spec(CHUNK_OF(k).mask) <= g_total)

/* what every caller may rely on after the constructor returned (k: any key) */
static void ghost_reset(void) { g_alloc_cells = 0; g_nalloc = 0; g_alloc_p = 0; g_last_cell = 0; g_nwrites = 0; }
static void check_sparse_post(const sparse *s, key_type k)
{
    g_sp = s;
    if (s->m_array.map == 0) {
        /* unusable object (operator bool false): read_glyph returns 0 and the caller destroys the GlyphFace; ~sparse frees m_array.values == 0 */
        __CPROVER_assert(g_nalloc == 0 || g_alloc_p == 0, "sparse ctor: an unusable object owns no memory (nothing leaked)");
        return;
    }
    if (s->m_array.map == &empty_chunk) {
        g_total = sizeof(chunk) / sizeof(mapped_type);
        __CPROVER_assert(g_nalloc == 0, "sparse ctor: the shared empty chunk is used only when nothing was allocated");
        __CPROVER_assert(s->m_nchunks == 0, "sparse ctor: empty object has no chunks");
    } else {
        g_total = g_alloc_cells;
        __CPROVER_assert(g_nalloc == 1 && s->m_array.values == g_alloc_p, "sparse ctor: the array is the one allocation made");
        __CPROVER_assert(g_nwrites == 0 ? g_total == (size_t)s->m_nchunks * 4 : g_last_cell + 1 == g_total, "sparse ctor: pass 2 fills exactly the cells pass 1 counted");
        __CPROVER_assert(g_total == (size_t)s->m_nchunks * 4 + g_nwrites, "sparse ctor: array = chunk headers + one cell per stored value");
    }
    __CPROVER_assert(SPARSE_WF_1(s), "SPARSE_WF: at least one chunk of storage, chunk headers inside the array");
    __CPROVER_assert(SPARSE_WF_2(s), "SPARSE_WF: values points at the start of an object of exactly g_total cells");
    __CPROVER_assert(SPARSE_WF_3(s, k), "SPARSE_WF: chunk offset + popcount(mask) <= g_total for the chunk of any key");
}

#ifdef UNIT_c01_sparse_ctor_pairs
void h_ctor_pairs(void)
{
    sparse *s = malloc(sizeof(sparse)); __CPROVER_assume(s);
    size_t w_n = nondet_size_t(), w_T = nondet_size_t(); __CPROVER_assume(w_n <= NPAIRS && w_T >= 4 && w_T <= 15);        /* 3 chunks + 3 values = 15 cells */
    value_type w_p[NPAIRS];
    key_type w_k = (key_type)nondet_unsigned(); size_t w_j = nondet_size_t();
    pair_it first = { w_p }, last = { w_p + w_n };
    ghost_reset();
    RUNT_4_15(sparse_ctor_pairs(s, first, last))
    check_sparse_post(s, w_k);
    if (s->m_array.map != 0 && w_j < w_n && w_p[w_j].second != 0) {
        key_type k = w_p[w_j].first;
        const mapped_type *vals = s->m_array.values;       /* (cbmc 6.11 mis-resolves s->m_array.values[i] written in one expression: union member of a heap object) */
        __CPROVER_assert(k / SIZEOF_CHUNK < s->m_nchunks && BIT_OF(k) == 1, "sparse ctor: the bit of every stored key is set");
        __CPROVER_assert((size_t)CHUNK_OF(k).offset + RANK_OF(k) < g_total && vals[CHUNK_OF(k).offset + RANK_OF(k)] == w_p[w_j].second, "sparse ctor: the value sits where operator[] reads it");
    }
    CANARY();
}
#endif

#ifdef UNIT_c01_sparse_ctor_widekeys
void h_ctor_wide(void)
{
    sparse *s = malloc(sizeof(sparse)); __CPROVER_assume(s);
    size_t w_n = nondet_size_t(); __CPROVER_assume(w_n <= NPAIRS);
    value_type w_p[NPAIRS];
    unsigned w_h = nondet_unsigned();
    pair_it first = { w_p }, last = { w_p + w_n };
    ghost_reset(); gh_n = 0;
    sparse_ctor_wide(s, first, last);
    if (s->m_array.map == 0) __CPROVER_assert(g_nalloc == 0 || g_alloc_p == 0, "sparse ctor: an unusable object owns no memory (nothing leaked)");
    else if (s->m_array.map == &empty_chunk) __CPROVER_assert(g_nalloc == 0 && s->m_nchunks == 0, "sparse ctor: the shared empty chunk is used only when nothing was allocated");
    else {
        size_t total = g_alloc_cells;
        __CPROVER_assert(g_nalloc == 1 && s->m_array.values == g_alloc_p && OFF(s->m_array.values) == 0 && OBJSZ(s->m_array.values) == total * sizeof(mapped_type), "SPARSE_WF: values points at the start of the one array, of exactly the requested size");
        __CPROVER_assert(total >= sizeof(chunk) / sizeof(mapped_type) && (size_t)s->m_nchunks * sizeof(chunk) <= total * sizeof(mapped_type), "SPARSE_WF: at least one chunk of storage, chunk headers inside the array");
        __CPROVER_assert(total == (size_t)s->m_nchunks * 4 + g_nwrites && (g_nwrites == 0 || g_last_cell + 1 == total), "sparse ctor: pass 2 fills exactly the cells pass 1 counted");
        __CPROVER_assert(total <= 0xFFFF, "sparse ctor: cell indices fit the 16-bit chunk offset");
        if (w_h < gh_n) __CPROVER_assert((size_t)gh_off[w_h] + pop64_spec(gh_mask[w_h]) <= total, "SPARSE_WF: chunk offset + popcount(mask) <= total for every chunk header written");
    }
    CANARY();
}
#endif

#ifdef UNIT_c01_sparse_total_fits
void h_total_fits(void)
{
    size_t num_attrs = nondet_size_t(); __CPROVER_assume(num_attrs >= 1 && num_attrs <= 0x3000);                 /* LOADER_WF_ATTRS */
    bool v1 = nondet_bool();
    size_t len = nondet_size_t(); __CPROVER_assume(len <= num_attrs * (v1 ? 4 : 6));                             /* postcondition 4 of Loader_read_glyph */
    size_t cnt = nondet_size_t(); __CPROVER_assume(cnt <= len && 2 * cnt <= len);                                /* c01_glat1_walk / c01_glat2_walk */
    size_t key = nondet_size_t(); __CPROVER_assume(key <= (v1 ? 255 + cnt : 0xFFFF));                           /* key() == uint16(be::peek<W>(_e) + _n), _n < cnt */
    size_t nchunks = key / SIZEOF_CHUNK + 1;                                                                     /* largest m_nchunks pass 1 can reach */
    __CPROVER_assert(nchunks * 4 + cnt <= 0xFFFF, "sparse ctor: the array read_glyph can cause has fewer than 65536 cells (no truncation of chunk offsets)");
    CANARY();
}
#endif

/* the range condition read_glyph establishes before it builds the iterators (asserted there, unit c01_read_glyph):
 *   version 1:  glocs + 4 <= gloce <= Glat size          version 2/3:  glocs + 6 <= gloce <= Glat size
 * the worst case for an over-read is gloce == Glat size, so the buffer is exactly [glocs, gloce). */
#define GLAT1_RANGE(s, e, sz) ((s) + 4 <= (e) && (e) <= (sz))
#define GLAT2_RANGE(s, e, sz) ((s) + 6 <= (e) && (e) <= (sz))


/* ---- the iterators alone, unbounded: the loop is the protocol sparse::sparse uses in both passes (for (; i != last; ++i) { v = *i; ... }) */
#ifdef WALK
#if WALK == 1
#define W_NE glat1_ne
#define W_INC glat1_inc
#define W_DEREF glat1_deref
#define W_MK mk_glat1
#define W_RANGE GLAT1_RANGE
#define W_HDR 2
#define W_ENTRY h_walk1
#else
#define W_NE glat2_ne
#define W_INC glat2_inc
#define W_DEREF glat2_deref
#define W_MK mk_glat2
#define W_RANGE GLAT2_RANGE
#define W_HDR 4
#define W_ENTRY h_walk2
#endif
void W_ENTRY(void)
{
    size_t w_n = nondet_size_t(); __CPROVER_assume(W_RANGE(0, w_n, w_n) && w_n <= ((size_t)1 << 32));
    byte *g = malloc(w_n); __CPROVER_assume(g);                      /* exactly [glocs, gloce) */
    glat_it i = W_MK(g); const glat_it last = W_MK(g + w_n);
    value_type v; v.first = 0; v.second = 0; size_t cnt = 0;        /* cnt: pairs produced */
    for (; W_NE(&i, &last); W_INC(&i))
    __CPROVER_assigns(i, v, cnt)
    __CPROVER_loop_invariant(SAME(i._e, g) && SAME(i._v, g) && OFF(i._e) + W_HDR <= OFF(i._v) && OFF(i._v) <= w_n + W_HDR && cnt <= OFF(i._v) && W_HDR + 2 * cnt <= OFF(i._v))
    __CPROVER_decreases(w_n + W_HDR + 2 - OFF(i._v))
    {
        v = W_DEREF(&i); ++cnt;
    }
    __CPROVER_assert(2 * cnt <= w_n, "glat iterator: every pair consumes two bytes of the range (at most len/2 pairs: with len <= 6 * 0x3000 the sparse array stays below 65536 cells)");
    CANARY();
}
#endif
#ifdef UNIT_c01_sparse_ctor_glat1
void h_ctor_glat1(void)
{
    sparse *s = malloc(sizeof(sparse)); __CPROVER_assume(s);
    size_t w_n = nondet_size_t(), w_T = nondet_size_t(); __CPROVER_assume(GLAT1_RANGE(0, w_n, w_n) && w_n <= 8 && w_T >= 4 && w_T <= 11);
    key_type w_k = (key_type)nondet_unsigned();
    byte *g = malloc(w_n); __CPROVER_assume(g);                      /* exactly [glocs, gloce): only read */
    ghost_reset();
    RUNT_4_11(sparse_ctor_glat1(s, mk_glat1(g), mk_glat1(g + w_n)))
    check_sparse_post(s, w_k);
    CANARY();
}
#endif
#ifdef UNIT_c01_sparse_ctor_glat2
void h_ctor_glat2(void)
{
    sparse *s = malloc(sizeof(sparse)); __CPROVER_assume(s);
    size_t w_n = nondet_size_t(), w_T = nondet_size_t(); __CPROVER_assume(GLAT2_RANGE(0, w_n, w_n) && w_n <= 10 && w_T >= 4 && w_T <= 11);
    key_type w_k = (key_type)nondet_unsigned();
    byte *g = malloc(w_n); __CPROVER_assume(g);
    ghost_reset();
    RUNT_4_11(sparse_ctor_glat2(s, mk_glat2(g), mk_glat2(g + w_n)))
    check_sparse_post(s, w_k);
    CANARY();
}
#endif

/* ================================================================== (B), (C): GlyphCache::Loader  (src/GlyphCache.cpp) and its TtfUtil helpers */
/*@unit {'name':'c01_sparse_capacity', 'props':['C01','C02'], 'entry':'h_capacity', 'enforce':'sparse_capacity', 'replace':['bit_set_count_ul'], 'defines':['PART_B'], 'min_loops':1,
  'claims':'sparse::capacity(): for an object satisfying SPARSE_WF (chunk headers inside the array) the loop reads exactly the m_nchunks chunk headers, nothing else, for any m_nchunks; assigns nothing (sparse::_sizeof() only calls capacity())'}@*/
/*@unit {'name':'c01_ttf_loca_lookup', 'props':['C01'], 'entry':'h_loca', 'enforce':'LocaLookup', 'defines':['PART_B'],
  'claims':'TtfUtil::LocaLookup: for any glyph id, any loca size and contents and any head table of at least sizeof(FontHeader) bytes both loca entries read (glyph and sentinel) lie inside the loca table, short and long format; assigns nothing'}@*/
/*@unit {'name':'c01_ttf_glyf_lookup', 'props':['C01'], 'entry':'h_glyf', 'enforce':'GlyfLookup_box', 'defines':['PART_B'],
  'claims':'TtfUtil::GlyfLookup + GlyfBox: for any offset (including the -1 / -2 results of LocaLookup) and a glyf table of at least sizeof(Sfnt::Glyph) = 10 bytes (CheckTable) the result is NULL or a pointer at which the whole 10-byte glyph header read by GlyfBox lies inside the table'}@*/
/*@unit {'name':'c01_ttf_hor_metrics', 'props':['C01'], 'entry':'h_hmtx', 'enforce':'HorMetrics', 'defines':['PART_B'],
  'claims':'TtfUtil::HorMetrics: for any glyph id, any num_long_hor_metrics and any hmtx table of at least 4 bytes (CheckTable guard) every read lies inside the hmtx table (long metric, last long metric, trailing lsb array) and inside the 36-byte hhea table; writes only the two outputs'}@*/
/*@unit {'name':'c01_loader_gloc', 'props':['C01','C02'], 'entry':'h_loader', 'enforce':'Loader_ctor_gloc', 'defines':['PART_B'],
  'claims':'GlyphCache::Loader::Loader (Glat/Gloc part, loop free): reads only the 8 header bytes of Gloc and at most 8 of Glat after checking the sizes; when it leaves the loader valid (_head kept) LOADER_WF holds: for every glyph id below _num_glyphs_attributes both Gloc offsets (short or long format) lie inside the Gloc table, 1 <= _num_attrs <= 0x3000, Glat has >= 4 bytes (>= 8 if version 3), _num_glyphs_graphics <= _num_glyphs_attributes'}@*/
/*@unit {'name':'c01_read_glyph', 'props':['C01','C02'], 'entry':'h_read_glyph', 'enforce':'Loader_read_glyph', 'defines':['PART_B','SPARSE_MODEL'],
  'claims':'GlyphCache::Loader::read_glyph under LOADER_WF: for ANY glyph id and arbitrary Gloc/Glat/glyf/loca/hmtx/head/hhea bytes in exact-size buffers (LocaLookup, GlyfLookup, GlyfBox, HorMetrics inlined) every table read is in bounds; the attribute iterators are built only over a range satisfying GLAT1_RANGE / GLAT2_RANGE (the precondition of the c01_sparse_ctor_glat units) no longer than 4 resp. 6 bytes per attribute; at most one sparse object is built and on a 0 return it is owned by the GlyphFace the caller destroys; a version-3 glyph adds exactly popcount(bitmap) to *numsubs'}@*/
/*@unit {'name':'c01_read_box', 'props':['C01','C02'], 'entry':'h_read_box', 'enforce':'Loader_read_box', 'defines':['PART_B','SPARSE_MODEL'], 'min_loops':1,
  'claims':'GlyphCache::Loader::read_box under LOADER_WF: for ANY glyph id the Gloc offsets, the octabox bitmap, the 4 diagonal bytes and 8 bytes per sub-box are read inside Gloc / Glat; the GlyphBox header and the 2*num sub-box rectangles are written inside a box of exactly sizeof(GlyphBox) + 8*num*sizeof(float) bytes (what GlyphCache::glyph allocates from the numsubs read_glyph reported); result 0 or the byte after the last rectangle'}@*/
/*@unit {'name':'c01_cache_glyph', 'props':['C01','C02'], 'entry':'h_cache_glyph', 'enforce':'GlyphCache_glyph', 'defines':['PART_B','CACHE'],
  'claims':'GlyphCache::glyph (lazy loading path, loop free) with read_glyph / read_box replaced by models that produce every outcome their contracts allow and CHECK the read_box precondition: any glyph id is served from inside _glyphs[0,numGlyphs) (out-of-range ids get glyph 0); a glyph that read_glyph rejects is deleted together with the attribute array the sparse constructor may have allocated (~sparse extracted) - nothing leaks, nothing is freed twice, the cache slot stays 0; the box handed to read_box has exactly sizeof(GlyphBox) + 8*numsubs*sizeof(float) bytes for the numsubs read_glyph reported, is stored in _boxes[gid] and freed again if read_box refuses it. (Allocation failure of the box is excluded: see report, read_box(NULL))'}@*/
/*@unit {'name':'c01_cache_glyph_oom', 'props':['C01','C02'], 'entry':'h_cache_glyph', 'enforce':'GlyphCache_glyph', 'defines':['PART_B','CACHE','BOX_ALLOC_MAY_FAIL'],
  'claims':'(variant in which the box allocation may fail; the NULL box must not reach read_box - repaired in /repo, fix: 9c5ad009) GlyphCache::glyph (lazy loading path, loop free) with read_glyph / read_box replaced by models that produce every outcome their contracts allow and CHECK the read_box precondition: any glyph id is served from inside _glyphs[0,numGlyphs) (out-of-range ids get glyph 0); a glyph that read_glyph rejects is deleted together with the attribute array the sparse constructor may have allocated (~sparse extracted) - nothing leaks, nothing is freed twice, the cache slot stays 0; the box handed to read_box has exactly sizeof(GlyphBox) + 8*numsubs*sizeof(float) bytes for the numsubs read_glyph reported, is stored in _boxes[gid] and freed again if read_box refuses it. (Allocation failure of the box is excluded: see report, read_box(NULL))'}@*/

#ifdef PART_B
#ifndef TMAX
#define TMAX ((size_t)1 << 32)          /* largest table size the harnesses build (sizes symbolic, contents arbitrary): sfnt table lengths are 32-bit */
#endif
#define be_swap(x) _Generic((x), uint16: be_swap_uint16, int16: be_swap_int16, uint32: be_swap_uint32)(x)
float nondet_float(void);

/* ---- sparse::capacity (src/Sparse.cpp), bit_set_count<unsigned long> (src/inc/bits.h; contract proved in unit c01_popcount_ul, spec/c01_sparse.c) */
unsigned int bit_set_count_ul(unsigned long v)
__CPROVER_ensures(__CPROVER_return_value == pop64_spec(v))
__CPROVER_assigns();
/*@extract {'if':'PART_B', 'file':'src/inc/bits.h', 'sig': r'inline unsigned int bit_set_count\(T v\)\s*(?=\{\s*static size_t const ONES)', 'emit':'unsigned int bit_set_count_ul(unsigned long v)', 'subs':[[r'\bT\b', 'ulong_t', 5]]}@*/
/*@extract {'if':'PART_B', 'file':'src/inc/bits.h', 'sig': r'inline unsigned int bit_set_count\(T v\)\s*(?=\{\s*static size_t const ONES)', 'emit':'static unsigned int bit_set_count_u32(uint32 v)', 'subs':[[r'\bT\b', 'uint32', 5]]}@*/
static unsigned pop16_spec(uint16 x) { return pop64_spec((unsigned long)x); }
size_t sparse_capacity(const sparse *self)
__CPROVER_requires(SPARSE_WF_1(self) && SPARSE_WF_2(self))
__CPROVER_assigns()
__CPROVER_ensures(1);
/*@extract {'if':'PART_B', 'file':'src/Sparse.cpp', 'sig': r'size_t sparse::capacity\(\) const throw\(\)', 'emit':'size_t sparse_capacity(const sparse *self)',
   'subs':[[r'bit_set_count\(', 'bit_set_count_ul(', 0]], 'self':['m_array','m_nchunks'],
   'loops':{1: """__CPROVER_assigns(n, ci, s)
                  __CPROVER_loop_invariant(n <= self->m_nchunks && SAME(ci, self->m_array.map) && OFF(ci) == (size_t)(self->m_nchunks - n) * sizeof(chunk))
                  __CPROVER_decreases(n)"""}}@*/
/*@extract {'if':'PART_B', 'file':'src/inc/Sparse.h', 'sig': r'sparse::operator bool \(\) const throw\(\)', 'emit':'static bool sparse_bool(const sparse *self)', 'self':['m_array']}@*/

/* ---- geometry shims */
typedef struct Position {
/*@extract {'if':'PART_B', 'kind':'members', 'file':'src/inc/Position.h', 'scope': r'class Position\s*\{', 'names':['x','y']}@*/
} Position;
typedef struct Rect {
/*@extract {'if':'PART_B', 'kind':'members', 'file':'src/inc/Position.h', 'scope': r'class Rect\s*\{', 'names':['bl','tr']}@*/
} Rect;
static Position mk_Position(float inx, float iny) { Position p; p.x = inx; p.y = iny; return p; }              /* Position(const float inx, const float iny) : x(inx), y(iny) */
static Rect mk_Rect(Position botLeft, Position topRight) { Rect r; r.bl = botLeft; r.tr = topRight; return r; }   /* Rect(const Position& botLeft, const Position& topRight): bl(botLeft), tr(topRight) */
typedef struct GlyphFace {
/*@extract {'if':'PART_B', 'kind':'members', 'file':'src/inc/GlyphFace.h', 'scope': r'class GlyphFace\s*\{', 'names':['m_bbox','m_advance','m_attrs']}@*/
} GlyphFace;
typedef struct GlyphBox {
/*@extract {'if':'PART_B', 'kind':'members', 'file':'src/inc/GlyphCache.h', 'scope': r'class GlyphBox\s*\{', 'names':['_num','_bitmap','_slant','_subs']}@*/
} GlyphBox;
typedef struct Face Face;
typedef struct Table {
/*@extract {'if':'PART_B', 'kind':'members', 'file':'src/inc/Face.h', 'scope': r'class Face::Table\s*\{', 'names':['_f','_p','_sz','_compressed'], 'subs':[[r'\bmutable\b', '', 0]]}@*/
} Table;
typedef struct Loader {
/*@extract {'if':'PART_B', 'kind':'members', 'file':'src/GlyphCache.cpp', 'scope': r'class GlyphCache::Loader\s*\{',
   'names':['_head','_hhea','_hmtx','_glyf','_loca','m_pGlat','m_pGloc','_long_fmt','_has_boxes','_num_glyphs_graphics','_num_glyphs_attributes','_num_attrs'], 'subs':[[r'Face::Table', 'Table', 0]]}@*/
} Loader;

/* ---- sfnt records (src/inc/TtfTypes.h, packed) */
typedef int32 fixed; typedef int16 fword; typedef uint16 ufword; typedef uint32 long_date_time[2]; typedef unsigned short gid16;
#pragma pack(push,1)
typedef struct FontHeader {
/*@extract {'if':'PART_B', 'kind':'members', 'file':'src/inc/TtfTypes.h', 'scope': r'struct FontHeader\s*\{',
   'names':['version','font_revision','check_sum_adjustment','magic_number','flags','units_per_em','created','modified','x_min','y_min','x_max','y_max','mac_style','lowest_rec_ppem','font_direction_hint','index_to_loc_format','glyph_data_format']}@*/
} FontHeader;
typedef struct HorizontalHeader {
/*@extract {'if':'PART_B', 'kind':'members', 'file':'src/inc/TtfTypes.h', 'scope': r'struct HorizontalHeader\s*\{',
   'names':['version','ascent','descent','line_gap','advance_width_max','min_left_side_bearing','max_left_side_bearing','x_max_element','caret_slope_rise','caret_slope_run','caret_offset','reserved','metric_data_format','num_long_hor_metrics']}@*/
} HorizontalHeader;
typedef struct HorizontalMetric {
/*@extract {'if':'PART_B', 'kind':'members', 'file':'src/inc/TtfTypes.h', 'scope': r'struct HorizontalMetric\s*\{', 'names':['advance_width','left_side_bearing']}@*/
} HorizontalMetric;
typedef struct Glyph {
/*@extract {'if':'PART_B', 'kind':'members', 'file':'src/inc/TtfTypes.h', 'scope': r'struct Glyph\s*\{', 'names':['number_of_contours','x_min','y_min','x_max','y_max']}@*/
} Glyph;
#pragma pack(pop)
/*@extract {'if':'PART_B', 'file':'src/inc/TtfTypes.h', 'scope': r'struct FontHeader\s*\{', 'kind':'range', 'start': r'enum \{ShortIndexLocFormat', 'end': r';', 'end_inclusive': True}@*/
/*@extract {'if':'PART_B', 'file':'src/inc/TtfUtil.h', 'kind':'define', 'name':'OVERFLOW_OFFSET_CHECK', 'casts':True}@*/

/* ---- ghost description of the tables (set by the harnesses): exact-size heap objects */
const byte *g_loca, *g_glyf, *g_hmtx, *g_head, *g_hhea, *g_gloc, *g_glat;
size_t g_locasz, g_glyfsz, g_hmtxsz, g_headsz, g_hheasz, g_glocsz, g_glatsz;
#define TBL(p, sz, gp, gsz) ((p) == (gp) && (sz) == (gsz) && OFF(gp) == 0 && OBJSZ(gp) == (gsz))
/* sizes CheckTable / Face::Table guarantee for a table that was opened (unit c16_checktable_guard: >= 4 for every table;
 * src/TtfUtil.cpp CheckTable: head >= sizeof(FontHeader), hhea >= sizeof(HorizontalHeader), glyf >= sizeof(Glyph)) */

size_t LocaLookup(gid16 nGlyphId, const void *pLoca, size_t lLocaSize, const void *pHead)
__CPROVER_requires(TBL((const byte *)pLoca, lLocaSize, g_loca, g_locasz) && TBL((const byte *)pHead, g_headsz, g_head, g_headsz) && g_headsz >= sizeof(FontHeader))
__CPROVER_assigns()
__CPROVER_ensures(1);
/*@extract {'if':'PART_B', 'file':'src/TtfUtil.cpp', 'sig': r'size_t LocaLookup\(gid16 nGlyphId,\s*const void \* pLoca, size_t lLocaSize,\s*const void \* pHead\)',
   'emit':'size_t LocaLookup(gid16 nGlyphId, const void *pLoca, size_t lLocaSize, const void *pHead)', 'casts':True, 'strip':['Sfnt::FontHeader::', 'Sfnt::'],
   'subs':[[r'be::swap\(', 'be_swap(', 0], [r'be::peek<(\w+)>\(', r'be_peek_\1(', 0]]}@*/

void *GlyfLookup(const void *pGlyf, size_t nGlyfOffset, size_t nTableLen);
/*@extract {'if':'PART_B', 'file':'src/TtfUtil.cpp', 'sig': r'void \* GlyfLookup\(const void \* pGlyf, size_t nGlyfOffset, size_t nTableLen\)',
   'emit':'void *GlyfLookup(const void *pGlyf, size_t nGlyfOffset, size_t nTableLen)', 'casts':True, 'strip':['Sfnt::']}@*/
bool GlyfBox(const void *pSimpleGlyf, int *xMin, int *yMin, int *xMax, int *yMax);
/*@extract {'if':'PART_B', 'file':'src/TtfUtil.cpp', 'sig': r'bool GlyfBox\(const void \* pSimpleGlyf, int & xMin, int & yMin,\s*int & xMax, int & yMax\)',
   'emit':'bool GlyfBox(const void *pSimpleGlyf, int *xMin, int *yMin, int *xMax, int *yMax)', 'casts':True, 'strip':['Sfnt::'], 'refs':['xMin','yMin','xMax','yMax'],
   'subs':[[r'be::swap\(', 'be_swap(', 0]]}@*/
/* the pair as read_glyph uses it: GlyfLookup, then GlyfBox on a non-NULL result */
bool GlyfLookup_box(const void *pGlyf, size_t nGlyfOffset, size_t nTableLen, int *xMin, int *yMin, int *xMax, int *yMax)
__CPROVER_requires(TBL((const byte *)pGlyf, nTableLen, g_glyf, g_glyfsz) && g_glyfsz >= sizeof(Glyph))
__CPROVER_requires(__CPROVER_w_ok(xMin, sizeof(int)) && __CPROVER_w_ok(yMin, sizeof(int)) && __CPROVER_w_ok(xMax, sizeof(int)) && __CPROVER_w_ok(yMax, sizeof(int)))
__CPROVER_assigns(*xMin, *yMin, *xMax, *yMax)
__CPROVER_ensures(1);
bool GlyfLookup_box(const void *pGlyf, size_t nGlyfOffset, size_t nTableLen, int *xMin, int *yMin, int *xMax, int *yMax)
{
    void *pGlyph = GlyfLookup(pGlyf, nGlyfOffset, nTableLen);
    if (pGlyph) __CPROVER_assert(SAME(pGlyph, g_glyf) && OFF(pGlyph) == nGlyfOffset && nGlyfOffset + sizeof(Glyph) <= g_glyfsz, "GlyfLookup: a non-NULL result is table + offset with the whole glyph header inside the table");
    return pGlyph && GlyfBox(pGlyph, xMin, yMin, xMax, yMax);
}

bool HorMetrics(gid16 nGlyphId, const void *pHmtx, size_t lHmtxSize, const void *pHhea, int *nLsb, unsigned int *nAdvWid)
__CPROVER_requires(TBL((const byte *)pHmtx, lHmtxSize, g_hmtx, g_hmtxsz) && g_hmtxsz >= 4 && TBL((const byte *)pHhea, g_hheasz, g_hhea, g_hheasz) && g_hheasz >= sizeof(HorizontalHeader))
__CPROVER_requires(__CPROVER_w_ok(nLsb, sizeof(int)) && __CPROVER_w_ok(nAdvWid, sizeof(unsigned)))
__CPROVER_assigns(*nLsb, *nAdvWid)
__CPROVER_ensures(1);
/*@extract {'if':'PART_B', 'file':'src/TtfUtil.cpp', 'sig': r'bool HorMetrics\(gid16 nGlyphId, const void \* pHmtx, size_t lHmtxSize, const void \* pHhea,\s*int & nLsb, unsigned int & nAdvWid\)',
   'emit':'bool HorMetrics(gid16 nGlyphId, const void *pHmtx, size_t lHmtxSize, const void *pHhea, int *nLsb, unsigned int *nAdvWid)', 'casts':True, 'strip':['Sfnt::'], 'refs':['nLsb','nAdvWid'],
   'subs':[[r'be::swap\(', 'be_swap(', 0], [r'be::peek<(\w+)>\(', r'be_peek_\1(', 0]]}@*/

/* ---- LOADER_WF: what Loader::Loader leaves behind when it succeeds (ensured by unit c01_loader_gloc, required by read_glyph / read_box) */
#define GLOC_W(L)          ((L)->_long_fmt ? sizeof(uint32) : sizeof(uint16))
#define GLOC_GID_OK(L, g)  (8 + ((size_t)(g) + 2) * GLOC_W(L) <= g_glocsz)          /* both offsets of glyph g inside Gloc */
#define LOADER_WF_GLOC(L)  (TBL((L)->m_pGloc._p, (L)->m_pGloc._sz, g_gloc, g_glocsz) && g_glocsz >= 8 \
                            && ((L)->_num_glyphs_attributes == 0 || GLOC_GID_OK(L, (L)->_num_glyphs_attributes - 1)))
#define LOADER_WF_GLAT(L)  (TBL((L)->m_pGlat._p, (L)->m_pGlat._sz, g_glat, g_glatsz) && g_glatsz >= 4)
#define LOADER_WF_ATTRS(L) ((L)->_num_attrs >= 1 && (L)->_num_attrs <= 0x3000 && (L)->_num_glyphs_graphics <= (L)->_num_glyphs_attributes)
#define U16AT(t, o) ((uint16)(((uint16)(t)[o] << 8) | (t)[(o) + 1]))
#define U32AT(t, o) (((uint32)(t)[o] << 24) | ((uint32)(t)[(o) + 1] << 16) | ((uint32)(t)[(o) + 2] << 8) | (t)[(o) + 3])

/* ---- (C) Loader::Loader from the point where it opens Glat and Gloc.  Face::Table(face, tag[, version]) + move assignment
 *      (units of spec/c16_table.c) is modelled by Table_open: the member becomes empty or the table the harness prepared
 *      (>= 4 bytes: c16_checktable_guard); `_head = Face::Table()` (the loader's way of reporting failure) by Table_clear. */
const Table *g_src_glat, *g_src_gloc;
static const byte *Table_open(Table *t, const Table *src) { if (nondet_bool()) { t->_p = 0; t->_sz = 0; } else { t->_p = src->_p; t->_sz = src->_sz; } return t->_p; }
static void Table_clear(Table *t) { t->_p = 0; t->_sz = 0; }
uint16 g_gid;                                                                       /* ghost: any glyph id */
Loader *g_Lw;
void Loader_ctor_gloc(Loader *self)
__CPROVER_requires(self == g_Lw && self->_head._p != 0)
__CPROVER_requires(TBL(g_src_gloc->_p, g_src_gloc->_sz, g_gloc, g_glocsz) && g_glocsz >= 4 && TBL(g_src_glat->_p, g_src_glat->_sz, g_glat, g_glatsz) && g_glatsz >= 4)
__CPROVER_assigns(self->_head, self->m_pGlat, self->m_pGloc, self->_long_fmt, self->_has_boxes, self->_num_glyphs_attributes, self->_num_attrs)
__CPROVER_ensures(self->_head._p != 0 ==> LOADER_WF_GLOC(self))
__CPROVER_ensures(self->_head._p != 0 ==> LOADER_WF_GLAT(self))
__CPROVER_ensures(self->_head._p != 0 ==> LOADER_WF_ATTRS(self))
/* every glyph id read_glyph / read_box will accept has its two Gloc offsets inside the table */
__CPROVER_ensures((self->_head._p != 0 && g_gid < self->_num_glyphs_attributes) ==> GLOC_GID_OK(self, g_gid))
/* a version 3 Glat table has its 8-byte header */
__CPROVER_ensures((self->_head._p != 0 && U32AT(g_glat, 0) >= 0x00030000 && U32AT(g_glat, 0) < 0x80000000u) ==> g_glatsz >= 8);
/*@extract {'if':'PART_B', 'file':'src/GlyphCache.cpp', 'kind':'range',
   'start': r'if \(\(m_pGlat = Face::Table\(face, Tag::Glat, 0x00030000\)\) == NULL', 'end': r'inline\s+GlyphCache::Loader::operator bool',
   'pre':'void Loader_ctor_gloc(Loader *self)\n{\n', 'casts':True,
   'subs':[[r'\(m_pGlat = Face::Table\(face, Tag::Glat, 0x00030000\)\) == NULL', 'Table_open(&m_pGlat, g_src_glat) == NULL', 1],
           [r'\(m_pGloc = Face::Table\(face, Tag::Gloc\)\) == NULL', 'Table_open(&m_pGloc, g_src_gloc) == NULL', 1],
           [r'_head = Face::Table\(\);', 'Table_clear(&_head);', 0], [r'(\w+)\.size\(\)', r'\1._sz', 0],
           [r'\b(m_pGlat|m_pGloc)\b(?![.,])', r'\1._p', 0],
           [r'be::read<(\w+)>\((\w+)\)', r'be_read_\1(&\2)', 0]],
   'self':['_head','m_pGlat','m_pGloc','_long_fmt','_has_boxes','_num_glyphs_graphics','_num_glyphs_attributes','_num_attrs']}@*/

/* ---- model of the GlyphFace constructor for the read_glyph unit: the real sparse constructor is the subject of the
 *      c01_sparse_ctor_* units; here its precondition is CHECKED and its possible outcomes are produced */
#ifdef SPARSE_MODEL
unsigned g_nctor; const void *g_model_alloc; size_t g_range_len; int g_range_w;
static void sparse_ctor_model(sparse *self, const glat_it *first, const glat_it *last, int w)
{
    ++g_nctor; g_range_w = w;
    __CPROVER_assert(SAME(first->_e, g_glat) && SAME(last->_e, g_glat), "read_glyph: both iterators point into Glat");
    __CPROVER_assert(w == 1 ? GLAT1_RANGE(OFF(first->_e), OFF(last->_e), g_glatsz) : GLAT2_RANGE(OFF(first->_e), OFF(last->_e), g_glatsz), "read_glyph: GLATn_RANGE, the precondition of the c01_sparse_ctor_glat units");
    g_range_len = OFF(last->_e) - OFF(first->_e);
    self->m_nchunks = (key_type)nondet_unsigned();
    if (nondet_bool()) { self->m_array.map = 0; g_model_alloc = 0; }                               /* unsorted keys / allocation failure */
    else if (nondet_bool()) { self->m_array.map = (chunk *)&empty_chunk; self->m_nchunks = 0; g_model_alloc = 0; }
    else { size_t cells = nondet_size_t(); __CPROVER_assume(cells >= 4 && cells <= 65536 + 5464 && (size_t)self->m_nchunks * 4 <= cells);
           self->m_array.values = malloc(cells * sizeof(mapped_type)); __CPROVER_assume(self->m_array.values); g_model_alloc = self->m_array.values; }
}
static void sparse_ctor_glat1(sparse *self, glat_it first, const glat_it last) { sparse_ctor_model(self, &first, &last, 1); }
static void sparse_ctor_glat2(sparse *self, glat_it first, const glat_it last) { sparse_ctor_model(self, &first, &last, 2); }
static size_t sparse_capacity_model(const sparse *self) { return nondet_size_t(); }     /* capacity(): reads only (unit c01_sparse_capacity) */
#endif
/*@extract {'if':'SPARSE_MODEL', 'file':'src/inc/GlyphFace.h', 'sig': r'GlyphFace::GlyphFace\(const Rect & bbox, const Position & adv, I first, const I last\)', 'ctor':True,
   'emit':'static void GlyphFace_ctor_glat1(GlyphFace *self, const Rect *bbox, const Position *adv, glat_it first, const glat_it last)', 'refs':['bbox','adv'],
   'subs':[[r'm_attrs = \(first, last\);', 'sparse_ctor_glat1(&m_attrs, first, last);', 1]], 'self':['m_bbox','m_advance','m_attrs']}@*/
/*@extract {'if':'SPARSE_MODEL', 'file':'src/inc/GlyphFace.h', 'sig': r'GlyphFace::GlyphFace\(const Rect & bbox, const Position & adv, I first, const I last\)', 'ctor':True,
   'emit':'static void GlyphFace_ctor_glat2(GlyphFace *self, const Rect *bbox, const Position *adv, glat_it first, const glat_it last)', 'refs':['bbox','adv'],
   'subs':[[r'm_attrs = \(first, last\);', 'sparse_ctor_glat2(&m_attrs, first, last);', 1]], 'self':['m_bbox','m_advance','m_attrs']}@*/

/* ---- (B) read_glyph */
const Loader *g_L;
#ifdef SPARSE_MODEL
GlyphFace *g_glyph; int *g_numsubs;
#define LOADER_TABLES(L) (TBL((L)->_head._p, (L)->_head._sz, g_head, g_headsz) && g_headsz >= sizeof(FontHeader) && TBL((L)->_hhea._p, (L)->_hhea._sz, g_hhea, g_hheasz) && g_hheasz >= sizeof(HorizontalHeader) \
        && TBL((L)->_hmtx._p, (L)->_hmtx._sz, g_hmtx, g_hmtxsz) && g_hmtxsz >= 4 \
        && (((L)->_glyf._p == 0 && (L)->_loca._p == 0) || (TBL((L)->_glyf._p, (L)->_glyf._sz, g_glyf, g_glyfsz) && g_glyfsz >= sizeof(Glyph) && TBL((L)->_loca._p, (L)->_loca._sz, g_loca, g_locasz) && g_locasz >= 4)))
/* first Gloc offset of glyph g (meaningful when GLOC_GID_OK) and the octabox bitmap stored there */
#define GLOCS(L, g)   ((L)->_long_fmt ? (size_t)U32AT(g_gloc, 8 + 4 * (size_t)(g)) : (size_t)U16AT(g_gloc, 8 + 2 * (size_t)(g)))
const GlyphFace *Loader_read_glyph(const Loader *self, unsigned short glyphid, GlyphFace *glyph, int *numsubs)
__CPROVER_requires(self == g_L && glyph == g_glyph && numsubs == g_numsubs && (numsubs == 0 || (*numsubs >= 0 && *numsubs <= 16 * 65536)))
/* Loader::operator bool (tables present, glyf iff loca) and the sizes CheckTable guarantees */
__CPROVER_requires(LOADER_TABLES(self))
__CPROVER_requires(LOADER_WF_GLOC(self) && LOADER_WF_GLAT(self) && LOADER_WF_ATTRS(self))
__CPROVER_assigns(*glyph; numsubs != 0: *numsubs; g_nctor, g_model_alloc, g_range_len, g_range_w)
__CPROVER_ensures(__CPROVER_return_value == 0 || __CPROVER_return_value == g_glyph)
/* at most one attribute object is built, and whatever it allocated belongs to the GlyphFace (destroyed by the caller on failure: no leak) */
__CPROVER_ensures(g_nctor <= 1 && (g_nctor == 0 ==> g_model_alloc == 0) && (g_model_alloc != 0 ==> g_glyph->m_attrs.m_array.values == g_model_alloc))
/* an accepted glyph never carries an unusable attribute object */
__CPROVER_ensures((__CPROVER_return_value != 0 && g_nctor == 1) ==> g_glyph->m_attrs.m_array.map != 0)
/* the attribute run handed to the iterators is no longer than numAttrs entries of one attribute each (4 resp. 6 bytes): with numAttrs <= 0x3000 the array
 * the sparse constructor allocates has fewer than 65536 cells, so the 16-bit chunk offsets cannot truncate (h_sparse_total_fits) */
__CPROVER_ensures(g_nctor == 1 ==> g_range_len <= (size_t)g_L->_num_attrs * (g_range_w == 1 ? 4 : 6))
/* version 3: the number of sub-boxes reported is the population count of the bitmap read_box will read */
__CPROVER_ensures((__CPROVER_return_value != 0 && g_numsubs != 0 && glyphid < g_L->_num_glyphs_attributes && U32AT(g_glat, 0) >= 0x00030000)
                  ==> (GLOCS(g_L, glyphid) + 2 <= g_glatsz && *g_numsubs == __CPROVER_old(*g_numsubs) + (int)pop16_spec(U16AT(g_glat, GLOCS(g_L, glyphid)))));
/*@extract {'if':'SPARSE_MODEL', 'file':'src/GlyphCache.cpp', 'sig': r'const GlyphFace \* GlyphCache::Loader::read_glyph\(unsigned short glyphid, GlyphFace & glyph, int \*numsubs\) const throw\(\)',
   'emit':'const GlyphFace *Loader_read_glyph(const Loader *self, unsigned short glyphid, GlyphFace *glyph, int *numsubs)', 'casts':True, 'strip':['TtfUtil::'], 'refs':['glyph'],
   'subs':[[r'Rect\s+bbox;', 'Rect bbox = {{0, 0}, {0, 0}};', 0], [r'Position\s+advance;', 'Position advance = {0, 0};', 0],
           [r'(\w+)\.size\(\)', r'\1._sz', 0], [r'\b(_head|_hhea|_hmtx|_glyf|_loca|m_pGlat|m_pGloc)\b(?!\.)', r'\1._p', 0],
           [r'GlyfBox\(pGlyph, xMin, yMin, xMax, yMax\)', 'GlyfBox(pGlyph, &xMin, &yMin, &xMax, &yMax)', 0], [r', nLsb, nAdvWid\)', ', &nLsb, &nAdvWid)', 0],
           [r'\bRect\(', 'mk_Rect(', 0], [r'\bPosition\(', 'mk_Position(', 0],
           [r'be::skip<(\w+)>\((\w+)', r'be_skip_\1(&\2', 0], [r'be::read<(\w+)>\((\w+)\)', r'be_read_\1(&\2)', 0], [r'be::peek<(\w+)>\(', r'be_peek_\1(', 0],
           [r'bit_set_count\(', 'bit_set_count_u32(', 0],
           [r'new \(&glyph\) GlyphFace\(bbox, advance, glat_iterator\(([^()]*)\), glat_iterator\(([^()]*)\)\);', r'GlyphFace_ctor_glat1(&glyph, &bbox, &advance, mk_glat1(\1), mk_glat1(\2));', 0],
           [r'new \(&glyph\) GlyphFace\(bbox, advance, glat2_iterator\(([^()]*)\), glat2_iterator\(([^()]*)\)\);', r'GlyphFace_ctor_glat2(&glyph, &bbox, &advance, mk_glat2(\1), mk_glat2(\2));', 0],
           [r'glyph\.attrs\(\)\.capacity\(\)', 'sparse_capacity_model(&glyph.m_attrs)', 0], [r'!glyph\.attrs\(\)', '!sparse_bool(&glyph.m_attrs)', 0]],
   'self':['_head','_hhea','_hmtx','_glyf','_loca','m_pGlat','m_pGloc','_long_fmt','_has_boxes','_num_glyphs_graphics','_num_glyphs_attributes','_num_attrs']}@*/

/* ---- (B) read_box.  readbox / scale_to (pure float arithmetic on their arguments, no memory) are modelled by an arbitrary Rect */
static Rect readbox(Rect *b, uint8 zxmin, uint8 zymin, uint8 zxmax, uint8 zymax) { Rect r; r.bl.x = nondet_float(); r.bl.y = nondet_float(); r.tr.x = nondet_float(); r.tr.y = nondet_float(); return r; }
/*@extract {'if':'SPARSE_MODEL', 'file':'src/inc/GlyphCache.h', 'scope': r'class GlyphBox\s*\{', 'sig': r'GlyphBox\(uint8 numsubs, unsigned short bitmap, Rect \*slanted\)', 'ctor':True,
   'emit':'static void GlyphBox_ctor(GlyphBox *self, uint8 numsubs, unsigned short bitmap, Rect *slanted)', 'self':['_num','_bitmap','_slant','_subs']}@*/
/*@extract {'if':'SPARSE_MODEL', 'file':'src/inc/GlyphCache.h', 'scope': r'class GlyphBox\s*\{', 'sig': r'void addSubBox\(int subindex, int boundary, Rect \*val\)',
   'emit':'static void GlyphBox_addSubBox(GlyphBox *self, int subindex, int boundary, Rect *val)', 'self':['_num','_bitmap','_slant','_subs']}@*/
GlyphBox *g_box; size_t g_boxnum;                       /* the box holds sizeof(GlyphBox) + 8 * g_boxnum * sizeof(float) bytes */
GlyphBox *Loader_read_box(const Loader *self, uint16 gid, GlyphBox *curr, const GlyphFace *glyph)
__CPROVER_requires(self == g_L && glyph == g_glyph && curr == g_box && OFF(g_box) == 0 && OBJSZ(g_box) == sizeof(GlyphBox) + 8 * g_boxnum * sizeof(float))
__CPROVER_requires(LOADER_WF_GLOC(self) && LOADER_WF_GLAT(self) && LOADER_WF_ATTRS(self))
/* GlyphCache::glyph sizes the box from the numsubs read_glyph reported for this glyph (postcondition of Loader_read_glyph) */
__CPROVER_requires((gid < self->_num_glyphs_attributes && GLOCS(self, gid) + 2 <= g_glatsz) ==> pop16_spec(U16AT(g_glat, GLOCS(self, gid))) == g_boxnum)
__CPROVER_assigns(__CPROVER_object_whole(curr))
__CPROVER_ensures(__CPROVER_return_value == 0 || (SAME(__CPROVER_return_value, g_box) && OFF(__CPROVER_return_value) == sizeof(GlyphBox) + 2 * g_boxnum * sizeof(Rect)));
/*@extract {'if':'SPARSE_MODEL', 'file':'src/GlyphCache.cpp', 'sig': r'GlyphBox \* GlyphCache::Loader::read_box\(uint16 gid, GlyphBox \*curr, const GlyphFace & glyph\) const throw\(\)',
   'emit':'GlyphBox *Loader_read_box(const Loader *self, uint16 gid, GlyphBox *curr, const GlyphFace *glyph)', 'casts':True,
   'subs':[[r'(\w+)\.size\(\)', r'\1._sz', 0], [r'\b(m_pGlat|m_pGloc)\b(?!\.)', r'\1._p', 0],
           [r'glyph\.theBBox\(\)', 'glyph->m_bbox', 0], [r'Rect diamax\(', 'Rect diamax = mk_Rect(', 0], [r'\bPosition\(', 'mk_Position(', 0],
           [r'readbox\(diamax,', 'readbox(&diamax,', 0], [r'readbox\(\(i & 1\) \? diamax : bbox,', 'readbox((i & 1) ? &diamax : &bbox,', 0],
           [r'::new \(curr\) GlyphBox\(', 'GlyphBox_ctor(curr, ', 0], [r'curr->addSubBox\(', 'GlyphBox_addSubBox(curr, ', 0],
           [r'be::skip<(\w+)>\((\w+)', r'be_skip_\1(&\2', 0], [r'be::read<(\w+)>\((\w+)\)', r'be_read_\1(&\2)', 0], [r'be::peek<(\w+)>\(', r'be_peek_\1(', 0],
           [r'bit_set_count\(', 'bit_set_count_u32(', 0]],
   'loops':{1: """__CPROVER_assigns(i, p, __CPROVER_object_whole(curr))
                  __CPROVER_loop_invariant(i >= 0 && i <= num * 2 && SAME(p, g_glat) && OFF(p) == glocs + 6 + 4 * (size_t)i)
                  __CPROVER_decreases(num * 2 - i)"""},
   'self':['m_pGlat','m_pGloc','_long_fmt','_has_boxes','_num_glyphs_graphics','_num_glyphs_attributes','_num_attrs']}@*/
#endif


/* ================================================================== GlyphCache::glyph (src/GlyphCache.cpp): the caller of read_glyph / read_box */
#ifdef CACHE
typedef struct GlyphCache {
/*@extract {'if':'CACHE', 'kind':'members', 'file':'src/inc/GlyphCache.h', 'scope': r'class GlyphCache\s*\{', 'names':['_glyph_loader','_glyphs','_boxes','_num_glyphs','_num_attrs','_upem']}@*/
} GlyphCache;
/*@extract {'if':'CACHE', 'file':'src/inc/Sparse.h', 'sig': r'sparse::sparse\(\) throw\(\)', 'ctor':True, 'casts':True, 'strip':['graphite2::sparse::'], 'emit':'static void sparse_default_ctor(sparse *self)', 'self':['m_array','m_nchunks']}@*/
/* ghost bookkeeping of the two heap objects the path can create */
GlyphFace *g_face; bool g_face_freed; void *g_arr; unsigned g_arr_frees; int g_reported; GlyphBox *g_newbox; unsigned g_box_frees; unsigned short g_gid16;
static void ghost_free(void *p) { if (p != 0 && p == g_arr) ++g_arr_frees; free(p); }
/*@extract {'if':'CACHE', 'file':'src/Sparse.cpp', 'sig': r'sparse::~sparse\(\) throw\(\)', 'emit':'static void sparse_dtor(sparse *self)', 'subs':[[r'\bfree\(', 'ghost_free(', 0]], 'self':['m_array','m_nchunks']}@*/
static GlyphFace *GlyphFace_new(void)            /* new GlyphFace(): operator new may fail (CLASS_NEW_DELETE: malloc); GlyphFace() : m_attrs() */
{
    GlyphFace *g = nondet_bool() ? (GlyphFace *)0 : malloc(sizeof(GlyphFace));
    if (g) { g->m_bbox = mk_Rect(mk_Position(0, 0), mk_Position(0, 0)); g->m_advance = mk_Position(0, 0); sparse_default_ctor(&g->m_attrs); }
    g_face = g; return g;
}
static void GlyphFace_delete(GlyphFace *g)       /* delete g: ~GlyphFace runs ~sparse, operator delete frees */
{
    if (g == 0) return;
    __CPROVER_assert(g == g_face && g_face_freed == false, "glyph(): only the face just created is deleted, once");
    sparse_dtor(&g->m_attrs); free(g); g_face_freed = true;
}
/* every outcome the contract of Loader_read_glyph (unit c01_read_glyph) allows */
static const GlyphFace *read_glyph_model(const Loader *L, unsigned short gid, GlyphFace *glyph, int *numsubs)
{
    __CPROVER_assert(L == g_L && glyph == g_face && glyph != 0 && numsubs != 0 && *numsubs == 0 && gid == g_gid16, "glyph(): read_glyph is called with the loader, the new face and a zeroed counter");
    if (nondet_bool()) {                         /* attributes were built: at most one sparse object, owned by the face */
        glyph->m_attrs.m_nchunks = (key_type)nondet_unsigned();
        if (nondet_bool()) glyph->m_attrs.m_array.map = 0;
        else if (nondet_bool()) { glyph->m_attrs.m_array.map = (chunk *)&empty_chunk; glyph->m_attrs.m_nchunks = 0; }
        else { g_arr = malloc(8); __CPROVER_assume(g_arr); glyph->m_attrs.m_array.values = g_arr; }
    }
    g_reported = (int)(nondet_unsigned() % 17); *numsubs += g_reported;       /* popcount of the 16-bit octabox bitmap */
    if (nondet_bool()) return 0;
    __CPROVER_assume(glyph->m_attrs.m_array.map != 0);                      /* postcondition 3 of Loader_read_glyph */
    return glyph;
}
/* the precondition of Loader_read_box (unit c01_read_box), checked; any result */
static GlyphBox *read_box_model(const Loader *L, uint16 gid, GlyphBox *curr, const GlyphFace *glyph)
{
    __CPROVER_assert(L == g_L && gid == g_gid16 && glyph == g_face, "glyph(): read_box gets the loader, the glyph id and the face just loaded");
    __CPROVER_assert(curr != 0 && OFF(curr) == 0 && OBJSZ(curr) == sizeof(GlyphBox) + 8 * (size_t)g_reported * sizeof(float), "glyph(): the box has exactly sizeof(GlyphBox) + 8*numsubs*sizeof(float) bytes (precondition of read_box)");
    if (curr) __CPROVER_havoc_object(curr);
    return nondet_bool() ? (GlyphBox *)0 : curr;
}
static char *gralloc_char(size_t n)
{
#ifdef BOX_ALLOC_MAY_FAIL
    if (nondet_bool()) { g_newbox = 0; return 0; }
#endif
    char *p = malloc(n); __CPROVER_assume(p); g_newbox = (GlyphBox *)p; return p;
}
static void box_free(void *p) { if (p != 0 && p == (void *)g_newbox) ++g_box_frees; free(p); }
const GlyphCache *g_C; size_t g_ng;
const GlyphFace *GlyphCache_glyph(const GlyphCache *self, unsigned short glyphid)
__CPROVER_requires(self == g_C && glyphid == g_gid16 && self->_num_glyphs == g_ng && g_ng >= 1)
/* Face::readGlyphs refuses a cache without glyphs; the GlyphCache constructor keeps the arrays only if glyph 0 loaded */
__CPROVER_requires(OFF(self->_glyphs) == 0 && OBJSZ(self->_glyphs) == g_ng * sizeof(const GlyphFace *) && self->_glyphs[0] != 0)
__CPROVER_requires(self->_boxes == 0 || (OFF(self->_boxes) == 0 && OBJSZ(self->_boxes) == g_ng * sizeof(GlyphBox *)))
__CPROVER_requires(self->_glyph_loader == 0 || self->_glyph_loader == g_L)
/* without a loader the cache was preloaded: the GlyphCache constructor keeps it only if every glyph loaded (its loop stops at the first failure and then drops glyph 0, i.e. the whole cache) */
__CPROVER_requires(self->_glyph_loader == 0 ==> (glyphid >= g_ng || self->_glyphs[glyphid] != 0))
__CPROVER_assigns(glyphid < g_ng: self->_glyphs[glyphid]; (glyphid < g_ng && self->_boxes != 0): self->_boxes[glyphid]; g_face, g_face_freed, g_arr, g_arr_frees, g_reported, g_newbox, g_box_frees)
/* always some glyph: the requested one, or glyph 0 for an unknown / unloadable id */
__CPROVER_ensures(__CPROVER_return_value != 0 && (__CPROVER_return_value == g_C->_glyphs[0] || (g_gid16 < g_ng && __CPROVER_return_value == g_C->_glyphs[g_gid16])))
/* a face that was created is either installed in the cache (the destructor deletes it) or deleted; never both */
__CPROVER_ensures(g_face != 0 ==> ((g_gid16 < g_ng && g_C->_glyphs[g_gid16] == g_face) != (g_face_freed == true)))
/* the attribute array goes with its face */
__CPROVER_ensures(g_arr != 0 ==> g_arr_frees == (g_face_freed == true ? 1 : 0))
/* the box is installed or freed, exactly once */
__CPROVER_ensures(g_newbox != 0 ==> ((g_C->_boxes[g_gid16] == g_newbox && g_box_frees == 0) || (g_C->_boxes[g_gid16] == 0 && g_box_frees == 1)));
/*@extract {'if':'CACHE', 'file':'src/GlyphCache.cpp', 'sig': r'const GlyphFace \*GlyphCache::glyph\(unsigned short glyphid\) const', 'emit':'const GlyphFace *GlyphCache_glyph(const GlyphCache *self, unsigned short glyphid)',
   'subs':[[r'const GlyphFace \* & p = _glyphs\[glyphid\];', 'const GlyphFace ** p_ref = &_glyphs[glyphid];', 1], [r'\bp\b', '(*p_ref)', 0],
           [r'\bnumGlyphs\(\)', '_num_glyphs', 0], [r'new GlyphFace\(\)', 'GlyphFace_new()', 0], [r'delete g;', 'GlyphFace_delete(g);', 0],
           [r'_glyph_loader->read_glyph\(glyphid, \*g, &numsubs\)', 'read_glyph_model(_glyph_loader, glyphid, g, &numsubs)', 0],
           [r'_glyph_loader->read_box\(glyphid, _boxes\[glyphid\], \*_glyphs\[glyphid\]\)', 'read_box_model(_glyph_loader, glyphid, _boxes[glyphid], _glyphs[glyphid])', 0],
           [r'gralloc<char>\(', 'gralloc_char(', 0], [r'\bfree\(', 'box_free(', 0]],
   'self':['_glyph_loader','_glyphs','_boxes','_num_glyphs']}@*/
#endif

/* ------------------------------------------------------------------ harnesses */
static byte *new_table(size_t n) { byte *p = malloc(n); __CPROVER_assume(p); return p; }
#ifdef UNIT_c01_sparse_capacity
void h_capacity(void)
{
    sparse *s = malloc(sizeof(sparse)); __CPROVER_assume(s);
    size_t total = nondet_size_t(); __CPROVER_assume(total >= 4 && total <= 65536 + 5464);
    mapped_type *vals = malloc(total * sizeof(mapped_type)); __CPROVER_assume(vals);
    s->m_array.values = vals; s->m_nchunks = (key_type)nondet_unsigned();
    g_sp = s; g_total = total;
    size_t r = sparse_capacity(s); (void)r;
    CANARY();
}
#endif
#ifdef UNIT_c01_ttf_loca_lookup
void h_loca(void)
{
    g_locasz = nondet_size_t(); __CPROVER_assume(g_locasz <= TMAX); g_loca = new_table(g_locasz);
    g_headsz = sizeof(FontHeader); g_head = new_table(g_headsz);
    size_t r = LocaLookup((gid16)nondet_unsigned(), g_loca, g_locasz, g_head); (void)r;
    CANARY();
}
#endif
#ifdef UNIT_c01_ttf_glyf_lookup
void h_glyf(void)
{
    g_glyfsz = nondet_size_t(); __CPROVER_assume(g_glyfsz >= sizeof(Glyph) && g_glyfsz <= TMAX); g_glyf = new_table(g_glyfsz);
    int a, b, c, d;
    bool r = GlyfLookup_box(g_glyf, nondet_size_t(), g_glyfsz, &a, &b, &c, &d); (void)r;
    CANARY();
}
#endif
#ifdef UNIT_c01_ttf_hor_metrics
void h_hmtx(void)
{
    g_hmtxsz = nondet_size_t(); __CPROVER_assume(g_hmtxsz >= 4 && g_hmtxsz <= TMAX); g_hmtx = new_table(g_hmtxsz);
    g_hheasz = sizeof(HorizontalHeader); g_hhea = new_table(g_hheasz);
    int lsb; unsigned adv;
    bool r = HorMetrics((gid16)nondet_unsigned(), g_hmtx, g_hmtxsz, g_hhea, &lsb, &adv); (void)r;
    CANARY();
}
#endif
#ifdef UNIT_c01_loader_gloc
void h_loader(void)
{
    Loader *L = malloc(sizeof(Loader)); __CPROVER_assume(L);
    Table *sg = malloc(sizeof(Table)), *sl = malloc(sizeof(Table)); __CPROVER_assume(sg && sl);
    g_glocsz = nondet_size_t(); __CPROVER_assume(g_glocsz >= 4 && g_glocsz <= (size_t)1 << 32); g_gloc = new_table(g_glocsz);
    g_glatsz = nondet_size_t(); __CPROVER_assume(g_glatsz >= 4 && g_glatsz <= (size_t)1 << 32); g_glat = new_table(g_glatsz);
    sl->_p = g_gloc; sl->_sz = g_glocsz; sg->_p = g_glat; sg->_sz = g_glatsz; g_src_gloc = sl; g_src_glat = sg;
    L->_long_fmt = nondet_bool(); L->_has_boxes = nondet_bool(); L->_head._compressed = nondet_bool();
    __CPROVER_assume(L->_head._p != 0); g_Lw = L; g_gid = (uint16)nondet_unsigned();
    Loader_ctor_gloc(L);
    CANARY();
}
#endif
#ifdef SPARSE_MODEL
static Loader *new_loader(void)
{
    Loader *L = malloc(sizeof(Loader)); __CPROVER_assume(L);
    L->_long_fmt = nondet_bool(); L->_has_boxes = nondet_bool();
    g_headsz = sizeof(FontHeader); g_head = new_table(g_headsz); L->_head._p = g_head; L->_head._sz = g_headsz;
    g_hheasz = sizeof(HorizontalHeader); g_hhea = new_table(g_hheasz); L->_hhea._p = g_hhea; L->_hhea._sz = g_hheasz;
    g_hmtxsz = nondet_size_t(); __CPROVER_assume(g_hmtxsz >= 4 && g_hmtxsz <= TMAX); g_hmtx = new_table(g_hmtxsz); L->_hmtx._p = g_hmtx; L->_hmtx._sz = g_hmtxsz;
    if (nondet_bool()) { L->_glyf._p = 0; L->_glyf._sz = 0; L->_loca._p = 0; L->_loca._sz = 0; }
    else {
        g_glyfsz = nondet_size_t(); __CPROVER_assume(g_glyfsz >= sizeof(Glyph) && g_glyfsz <= TMAX); g_glyf = new_table(g_glyfsz); L->_glyf._p = g_glyf; L->_glyf._sz = g_glyfsz;
        g_locasz = nondet_size_t(); __CPROVER_assume(g_locasz >= 4 && g_locasz <= TMAX); g_loca = new_table(g_locasz); L->_loca._p = g_loca; L->_loca._sz = g_locasz;
    }
    g_glocsz = nondet_size_t(); __CPROVER_assume(g_glocsz >= 8 && g_glocsz <= TMAX); g_gloc = new_table(g_glocsz); L->m_pGloc._p = g_gloc; L->m_pGloc._sz = g_glocsz;
    g_glatsz = nondet_size_t(); __CPROVER_assume(g_glatsz >= 4 && g_glatsz <= TMAX); g_glat = new_table(g_glatsz); L->m_pGlat._p = g_glat; L->m_pGlat._sz = g_glatsz;
    g_L = L;
    return L;
}
#endif
#ifdef UNIT_c01_read_glyph
void h_read_glyph(void)
{
    Loader *L = new_loader();
    GlyphFace *g = malloc(sizeof(GlyphFace)); __CPROVER_assume(g); g_glyph = g;
    g->m_attrs.m_array.map = (chunk *)&empty_chunk; g->m_attrs.m_nchunks = 0;              /* GlyphFace() : sparse() */
    int *ns = nondet_bool() ? (int *)0 : malloc(sizeof(int)); g_numsubs = ns;
    g_nctor = 0; g_model_alloc = 0; g_range_len = 0; g_range_w = 0;      /* (dfcc havocs statics: ghost state is initialised explicitly) */
    const GlyphFace *r = Loader_read_glyph(L, (unsigned short)nondet_unsigned(), g, ns); (void)r;
    CANARY();
}
#endif
#ifdef UNIT_c01_read_box
void h_read_box(void)
{
    Loader *L = new_loader();
    GlyphFace *g = malloc(sizeof(GlyphFace)); __CPROVER_assume(g); g_glyph = g;
    g_boxnum = nondet_size_t(); __CPROVER_assume(g_boxnum <= 16);
    g_box = malloc(sizeof(GlyphBox) + 8 * g_boxnum * sizeof(float)); __CPROVER_assume(g_box);
    GlyphBox *r = Loader_read_box(L, (uint16)nondet_unsigned(), g_box, g); (void)r;
    CANARY();
}
#endif
#if defined(UNIT_c01_cache_glyph) || defined(UNIT_c01_cache_glyph_oom)
void h_cache_glyph(void)
{
    GlyphCache *c = malloc(sizeof(GlyphCache)); Loader *L = malloc(sizeof(Loader)); __CPROVER_assume(c && L);
    g_ng = nondet_size_t(); __CPROVER_assume(g_ng >= 1 && g_ng <= 65535);
    c->_num_glyphs = (unsigned short)g_ng;
    c->_glyphs = malloc(g_ng * sizeof(const GlyphFace *)); __CPROVER_assume(c->_glyphs);
    c->_boxes = nondet_bool() ? (GlyphBox **)0 : malloc(g_ng * sizeof(GlyphBox *)); 
    c->_glyph_loader = nondet_bool() ? (const Loader *)0 : L;
    g_C = c; g_L = L; g_gid16 = (unsigned short)nondet_unsigned();
    g_face = 0; g_face_freed = false; g_arr = 0; g_arr_frees = 0; g_reported = 0; g_newbox = 0; g_box_frees = 0;
    const GlyphFace *r = GlyphCache_glyph(c, g_gid16); (void)r;
    CANARY();
}
#endif
#endif /* PART_B */
