/* C01 / C02 / C06 - the pass loader of src/Pass.cpp beyond the pieces other spec files already have under contract
 * (c02_readpass_header: the first 40 bytes; c01_readranges: Pass::readRanges; c01_readstates_tables: the start-state and
 * transition tables of Pass::readStates).
 *
 * Pass::readPass is loop-free.  As ONE function it exhausts the solver (a 32-bit product next to 60 symbolic-offset reads), so
 * its body is checked as two consecutive 'range' pieces that cover it without a gap; the cut is immediately before the
 * statement `const byte * const states = p;`:
 *   c01_pass_offsets   from the first statement (`const byte * p = pass_start, ...`) up to the cut: header, sanity tests on
 *                      numTransition/numSuccess/numStates/numColumns/numRanges, the regions ranges, o_rule_map, rule_map,
 *                      start_states, sort_keys, precontext and the pointers o_constraint / o_actions.  Unbounded: pass
 *                      buffer of arbitrary length < 2^32 and arbitrary bytes, exact size.  Its harness asserts CUT_FACTS
 *                      on the local variables live at the cut.
 *   c01_pass_codeptrs  from the cut to the end of the function: states region (2u*numTransition*numColumns against
 *                      pass_end - p), pcCode / rcCode / aCode equalities, final pass_end test, pass-constraint Code, calls of
 *                      readRanges / readRules / readStates.  Its harness ASSUMES exactly CUT_FACTS (same macro) on otherwise
 *                      arbitrary locals.  The callees are ghost models whose asserts are the PRECONDITION side of the units
 *                      that hold their bodies: the regions (pointer, byte count) handed over lie inside [pass_start, pass_end).
 *                      The byte counts are the SZ_* macros below; the harnesses of c01_pass_readrules_r* / c01_pass_readstates
 *                      (and of c01_readranges / c01_readstates_tables) allocate exactly SZ_* bytes per region.
 *                      Two units on the same text: c01_pass_codeptrs (all built-in obligations + every clause that does not involve
 *                      the product 2*numTransition*numColumns) and c01_pass_codeptrs_trans (all spec clauses, built-in checks off).
 *   c01_pass_readrules_r1 / _r2  Pass::readRules, the whole function, bounded (numRules = 1 / 2, rule map <= 3 / 2 entries, code
 *                      areas <= 8 / 4 bytes, every table byte arbitrary, every table its own exact-size object).
 *   c01_pass_totalslots (NOT registered, see the end of the file): the unbounded sort-key sum of readRules; fails on a genuine signed overflow.
 *   c01_pass_readstates Pass::readStates, the whole function, bounded (<= 3 states, <= 2 start states, <= 2 transition
 *                      cells, rule map <= 3 entries): the State / rule-map part that c01_readstates_tables cuts off.
 *
 * Facts the run-time units assume about a loaded pass, and where they come from (E = established by the loader and checked
 * here, N = NOT established):
 *   c02_run_fsm requires m_minPreCtxt <= m_maxPreCtxt ............... E  c01_pass_offsets (E_BADCTXTLENBOUNDS)
 *   c02_run_fsm requires m_successStart <= m_numStates ............... E  c01_pass_offsets (E_BADNUMSUCCESS, m_successStart = numStates - numSuccess)
 *   c02_run_fsm requires OBJSZ(m_startStates) == (max-min+1)*2 ....... E  c01_pass_readstates
 *   c02_run_fsm requires OBJSZ(m_transitions) == numTransition*numColumns*2  E  c01_pass_readstates (no overflow: numColumns <= 0x7FFF, c01_pass_offsets)
 *   c02_run_fsm requires OBJSZ(m_states) == numStates*sizeof(State) .. E  c01_pass_readstates
 *   c02_run_fsm requires OBJSZ(m_cols) == numGlyphs*2 ................ (Pass::readRanges: c01_readranges)
 *   c02_run_fsm assumes start state < numStates, transition < numStates  E  c01_pass_readstates (and c01_readstates_tables)
 *   c02_run_fsm assumes glyph column < numColumns or 0xFFFF .......... (c01_readranges)
 *   runFSM: a state below m_successStart has a transition row (m_successStart <= m_numTransition)  E  c01_pass_offsets (E_BADNUMSTATES)
 *   Rules_accumulate_rules(&m_states[state]) with state < numStates: State.rules/rules_end delimit at most MAX_RULES
 *        entries inside m_ruleMap (or both NULL) ..................... E  c01_pass_readstates (E_BADRULEMAPPING, clamp to MAX_RULES)
 *   c06: every RuleEntry.rule points into m_rules[0, numRules) (ISRULE)  E  c01_pass_readrules_r1/_r2 (E_BADRULENUM)
 *   c06: Rule.sort / Rule.preContext are the values in the font, 1 <= sort <= 63, preContext < sort,
 *        minPreCtxt <= preContext <= maxPreCtxt ....................... E  c01_pass_readrules_r1/_r2
 *   c06: Rule.action / Rule.constraint non-NULL, loaded, constraint immutable  E  c01_pass_readrules_r1/_r2 (given the Code constructor model)
 *   c06_accumulate requires every State list ascending in the precedence order (load-time qsort)
 *        ............................................................. E  c01_pass_readstates: state j owns [o_rule_map[j], o_rule_map[j+1]), the loader refuses
 *        begin > end, so the ranges of different states are consecutive and disjoint and sorting one cannot disturb another
 *        (qsort itself trusted, as in the C06 units).
 *   c06_accumulate requires the lists STRICTLY ascending (duplicate-free) ... N: the loader accepts a rule number listed twice in
 *        one state's range (the two entries stay adjacent after qsort; accumulate_rules then emits the rule twice).  Rule
 *        precedence bookkeeping only; no memory-safety consequence: accumulate_rules caps its output at MAX_RULES whatever
 *        the input order (c06_accumulate proves the cap from the loop structure).
 */
#include "types.h"
#define assert(x) __CPROVER_assert((x), "source assert: " #x)

/*@unit {'name':'c01_pass_offsets', 'props':['C01','C02','C06'], 'entry':'h_offsets', 'backend':'cadical', 'timeout':900,
  'assumptions':['call site Silf::readGraphite: pass_length = pass_end - pass_start and subtable_base = pass_start are differences / values of uint32 offsets, hence <= 0xFFFFFFFF',
                 'Silf::aCollision / Silf::flags / GlyphCache::hasBoxes return arbitrary values',
                 'pcCode / rcCode / aCode = pass_start + <32-bit offset> - subtable_base are formed in a flat address space (they are only compared for equality with the read cursor before any use)'],
  'claims':'Pass::readPass, first piece (function start up to, not including, `const byte * const states = p;`; loop-free; pass buffer of arbitrary length < 2^32 and arbitrary bytes): every be::read/peek stays inside [pass_start, pass_end); when the cut is reached CUT_FACTS hold: numTransition <= numStates, numSuccess <= numStates <= numSuccess + numTransition, numColumns <= 0x7FFF, m_successStart = numStates - numSuccess, minPreCtxt <= maxPreCtxt, m_iMaxLoop >= 1, a pass without rules is a collision pass, a pass with rules has ranges; the regions ranges (6*numRanges), o_rule_map (2*(numSuccess+1), last entry = numEntries), rule_map (2*numEntries), start_states (2*(max-min+1)), sort_keys (2*numRules), precontext (numRules, plus the 3 bytes colThreshold/pass_constraint_len) lie inside the pass; o_constraint, o_actions and the cursor follow contiguously'}@*/
/*@unit {'name':'c01_pass_codeptrs', 'props':['C01','C02','C06'], 'entry':'h_codeptrs', 'backend':'cadical', 'timeout':900, 'defines':['CODEPTRS','PART=1'],
  'assumptions':['the state at the cut is arbitrary subject to CUT_FACTS (established by unit c01_pass_offsets: the same macro is asserted there); pcCode / rcCode / aCode = pass_start + x - subtable_base for arbitrary 32-bit x',
                 'Pass::readRanges / readRules / readStates and the Machine::Code constructor are ghost models with bodies: their asserts are the region preconditions of the units c01_readranges, c01_pass_readrules, c01_pass_readstates / c01_readstates_tables and of the Code loader units; they return success or failure arbitrarily',
                 '(unsigned)(pass_end - p) is evaluated on the offsets of the two pointers (ptr_diff: same-object assert, then offset difference): p may lie beyond pass_end here (flat address space), and CBMC 6.11 reports a signed-overflow for EVERY negative pointer difference, also between two in-bounds pointers'],
  'claims':'(all built-in memory-safety obligations of the piece and every clause except the three that involve the product 2*numTransition*numColumns, which are discharged by c01_pass_codeptrs_trans on the same text) Pass::readPass, second piece (from `const byte * const states = p;` to the end): a pass is accepted only if the transition table (2*numTransition*numColumns bytes, no 32-bit wrap since numColumns <= 0x7FFF) plus one byte lies inside the pass, the cursor meets pcCode, rcCode, aCode exactly and the end of the action code is <= pass_end; the regions handed to readRanges (6*numRanges bytes), readRules (rule map 2*numEntries, sort keys 2*numRules, precontext numRules, constraint/action offsets 2*(numRules+1) each, constraint code and action code of the lengths found in the last offset entries), readStates (start states 2*(max-min+1), transitions 2*numTransition*numColumns, rule-map offsets 2*(numSuccess+1) whose last entry is the numEntries given to readRules) and to the pass-constraint Code constructor all lie inside the pass buffer; the three readers are called in this order, once each, iff numRules != 0, and the pass is accepted only if each returned success'}@*/
/*@unit {'name':'c01_pass_codeptrs_trans', 'props':['C01','C02','C06'], 'entry':'h_codeptrs', 'backend':'cadical', 'timeout':900, 'defines':['CODEPTRS','PART=2'], 'no_checks':['--bounds-check','--pointer-check','--div-by-zero-check','--signed-overflow-check','--undefined-shift-check','--pointer-primitive-check'],
  'assumptions':['the state at the cut is arbitrary subject to CUT_FACTS (established by unit c01_pass_offsets: the same macro is asserted there); pcCode / rcCode / aCode = pass_start + x - subtable_base for arbitrary 32-bit x',
                 'Pass::readRanges / readRules / readStates and the Machine::Code constructor are ghost models with bodies: their asserts are the region preconditions of the units c01_readranges, c01_pass_readrules, c01_pass_readstates / c01_readstates_tables and of the Code loader units; they return success or failure arbitrarily',
                 '(unsigned)(pass_end - p) is evaluated on the offsets of the two pointers (ptr_diff: same-object assert, then offset difference): p may lie beyond pass_end here (flat address space), and CBMC 6.11 reports a signed-overflow for EVERY negative pointer difference, also between two in-bounds pointers'],
  'claims':'same text and harness as c01_pass_codeptrs, all spec clauses including the three about the transition table (the built-in pointer / overflow obligations of this text are discharged in c01_pass_codeptrs; the two sets together exhaust the solver in one run): an accepted pass has its transition table of (size_t)(2u*numTransition*numColumns) bytes inside the pass, that 32-bit product does not wrap (it equals 2*numTransition*numColumns, and numTransition*numColumns fits an int), and pcCode = states + table size + 1'}@*/
/*@unit {'name':'c01_pass_readrules_r1', 'props':['C01','C02','C06'], 'entry':'h_readrules', 'kind':'bounded', 'unwind':6, 'timeout':600, 'backend':'cadical', 'defines':['READRULES','NR=1','MAXNE=3','MAXCODE=8'], 'unwindset':['Pass_readRules.0:2','Pass_readRules.1:2','Pass_readRules.2:3','Pass_readRules.3:4','Rule_new_array.0:2','Code_new_array.0:3','h_readrules.0:2','h_readrules.1:4'],
  'bound':'numRules = 1, rule map of 0..3 entries, constraint and action code areas of 0..8 bytes each (the last offset entries), every other byte of every table arbitrary, each table its own exact-size object',
  'assumptions':['Machine::Code constructor is a ghost model: arbitrary status / flags, consumes at most estimateCodeDataOut(bytes, 1, is_constraint ? 0 : rule length) of the program pool (the size of its own malloc branch), touches the first and last byte of the range it is given; its asserts (range ordered and inside the code buffer, placement address inside m_codes, pool room) are call-site obligations',
                 'realloc modelled as NULL | same block | fresh block (old one freed); Code::externalProgramMoved is a ghost model (the pointer difference between the old and the new pool is a flat-address-space quantity and is not evaluated)',
                 'operator new[] for Rule / Code arrays and gralloc: NULL or an array of default-constructed objects (fields as in the constructors)'],
  'claims':'Pass::readRules (whole function): all reads inside the tables it is given; Rule / Code / RuleEntry arrays are allocated with numRules / 2*numRules / num_entries elements and never indexed outside; every action range [ac_begin,ac_end) and constraint range [rc_begin,rc_end) passed to the Code constructor is ordered and inside [ac_data, ac_data+len) / [rc_data, rc_data+len) with enough room left in the program pool; on success every rule has 1 <= sort <= 63, preContext < sort, minPreCtxt <= preContext <= maxPreCtxt, sort / preContext / action code start are the font values, action = m_codes[2i] and constraint = m_codes[2i+1] are loaded and the constraint is immutable, and every rule-map entry points to m_rules[k] with k < numRules (k the font value); on every return each allocation is either freed or owned by its Pass member'}@*/
/*@unit {'name':'c01_pass_readrules_r2', 'props':['C01','C02','C06'], 'entry':'h_readrules', 'kind':'bounded', 'unwind':6, 'timeout':600, 'backend':'cadical', 'defines':['READRULES','NR=2','MAXNE=2','MAXCODE=4'], 'unwindset':['Pass_readRules.0:3','Pass_readRules.1:3','Pass_readRules.2:5','Pass_readRules.3:3','Rule_new_array.0:3','Code_new_array.0:5','h_readrules.0:3','h_readrules.1:3'],
  'bound':'numRules = 2, rule map of 0..2 entries, constraint and action code areas of 0..4 bytes each (the last offset entries), every other byte of every table arbitrary, each table its own exact-size object',
  'assumptions':['Machine::Code constructor is a ghost model: arbitrary status / flags, consumes at most estimateCodeDataOut(bytes, 1, is_constraint ? 0 : rule length) of the program pool (the size of its own malloc branch), touches the first and last byte of the range it is given; its asserts (range ordered and inside the code buffer, placement address inside m_codes, pool room) are call-site obligations',
                 'realloc modelled as NULL | same block | fresh block (old one freed); Code::externalProgramMoved is a ghost model (the pointer difference between the old and the new pool is a flat-address-space quantity and is not evaluated)',
                 'operator new[] for Rule / Code arrays and gralloc: NULL or an array of default-constructed objects (fields as in the constructors)'],
  'claims':'same as c01_pass_readrules_r1 with two rules: in addition the action areas of the two rules are adjacent ([o_action[0], o_action[1]) and [o_action[1], o_action[2])), the codes of rule 0 are constructed after those of rule 1 and the pool room is checked again for rule 0'}@*/
/*@unit {'name':'c01_pass_readstates', 'props':['C01','C02','C06'], 'entry':'h_states', 'kind':'bounded', 'unwind':5, 'timeout':500, 'backend':'cadical',
  'bound':'numStates <= 3 (numSuccess <= numStates arbitrary), 1..2 start states, 0..2 transition cells, rule map of 0..3 entries (so the clamp of a state list to MAX_RULES=128 entries is not exercised), rules drawn from a pass of 3 rules with arbitrary sort keys; all table bytes arbitrary, exact-size buffers',
  'assumptions':['qsort is a model: asserts a non-NULL base, that [base, base+n) lies inside m_ruleMap, element size and comparator as in the source; effect: an arbitrary permutation of the n entries that is ascending for cmpRuleEntry (qsort itself is trusted, as in the C06 units)',
                 'relational comparison of the NULL begin/end of a non-success state with rule_map_end is evaluated in a flat address space (macro FLAT: every object in its own 2^40-byte window, NULL = 0) instead of CBMC same-object semantics; end - begin of two null pointers is 0 as in C++ (macro PDIFF)'],
  'claims':'Pass::readStates (whole function): reads exactly 2 bytes per start state / transition cell / rule-map offset, the three arrays have (max-min+1), numTransition*numColumns and numStates elements, every start state and transition is < numStates; every state below m_successStart gets an empty NULL list, every success state a list [rules, rules_end) with m_ruleMap <= rules < m_ruleMap+numEntries, rules <= rules_end <= m_ruleMap+numEntries and at most MAX_RULES entries, taken from the font offsets; qsort is called exactly on that range; after loading every state list is ascending for cmpRuleEntry (the ranges of different states are consecutive, so a later sort cannot disturb an earlier one); not established: strict ascent - a rule number may occur twice in one state list'}@*/

/*@include endian.tc@*/
#define be_read_byte be_read_uint8          /* typedef uint8 byte (src/inc/Main.h) */
#define be_skip_byte be_skip_uint8

/* ------------------------------------------------------------------ types: enums and members copied from the headers */
/*@extract {'file':'src/inc/Error.h', 'kind':'range', 'start': r'enum errcontext\s*\{', 'end': r'\};', 'end_inclusive': True}@*/
/*@extract {'file':'src/inc/Error.h', 'kind':'range', 'start': r'enum error\s*\{', 'end': r'\};', 'end_inclusive': True}@*/
/*@extract {'file':'src/inc/Code.h', 'kind':'range', 'start': r'enum passtype\s*\{', 'end': r'\};', 'end_inclusive': True}@*/
typedef enum passtype passtype;
/*@extract {'file':'src/inc/Code.h', 'scope': r'class Machine::Code\s*\{', 'kind':'range', 'start': r'enum status_t\s*\{', 'end': r'\};', 'end_inclusive': True}@*/
typedef enum status_t status_t;
/*@extract {'file':'src/inc/Rule.h', 'scope': r'class FiniteStateMachine\s*\{', 'kind':'range', 'start': r'enum \{MAX_RULES', 'end': r';', 'end_inclusive': True}@*/
typedef void *instr;
typedef struct Error { int _e; } Error;
typedef struct Face {
/*@extract {'kind':'members', 'file':'src/inc/Face.h', 'scope': r'class Face\s*\{', 'names':['m_error','m_errcntxt']}@*/
} Face;
typedef struct Code {
/*@extract {'kind':'members', 'file':'src/inc/Code.h', 'scope': r'class Machine::Code\s*\{', 'names':['_code','_data','_data_size','_instr_count','_max_ref','_status','_constraint','_modify','_delete','_own'],
   'subs':[[r'\bmutable\s+', '', 0]]}@*/
} Code;
typedef struct Rule { const Code *constraint, *action; unsigned short sort; byte preContext; uint16 rule_idx; } Rule;      /* struct Rule, src/inc/Rule.h (NDEBUG not defined) */
typedef struct RuleEntry { const Rule *rule; } RuleEntry;
typedef struct State { const RuleEntry *rules, *rules_end; } State;
typedef struct Silf Silf;
typedef struct Pass {
/*@extract {'kind':'members', 'file':'src/inc/Pass.h', 'scope': r'class Pass\s*\{',
   'names':['m_silf','m_cols','m_rules','m_ruleMap','m_startStates','m_transitions','m_states','m_codes','m_progs','m_numCollRuns','m_kernColls','m_iMaxLoop','m_numGlyphs','m_numRules','m_numStates',
            'm_numTransition','m_numSuccess','m_successStart','m_numColumns','m_minPreCtxt','m_maxPreCtxt','m_colThreshold','m_isReverseDir','m_cPConstraint'],
   'subs':[[r'vm::Machine::Code', 'Code', 0]]}@*/
} Pass;

/* one-line accessors, extracted */
/*@extract {'kind':'accessors', 'file':'src/inc/Error.h', 'scope': r'class Error\s*\{', 'prefix':'Error', 'names':['test'], 'fields':['_e']}@*/
/*@extract {'kind':'accessors', 'file':'src/inc/Face.h', 'scope': r'class Face\s*\{', 'prefix':'Face', 'names':['error','error_context'], 'fields':['m_error','m_errcntxt'],
   'subs':[[r'e\.error\(\)', 'e._e', 0]]}@*/
/*@extract {'kind':'accessors', 'file':'src/inc/Code.h', 'scope': r'class Machine::Code\s*\{', 'prefix':'Code', 'names':['status','immutable'], 'fields':['_status','_delete','_modify']}@*/
/*@extract {'file':'src/inc/Code.h', 'scope': r'class Machine::Code\s*\{', 'sig': r'operator bool \(\) const throw\(\)', 'emit':'static bool Code_bool(const Code *self)',
   'subs':[[r'\bstatus\(\)', 'Code_status_0(self)', 0]], 'self':['_code']}@*/
/*@extract {'file':'src/inc/Code.h', 'sig': r'size_t\s+Machine::Code::estimateCodeDataOut\(size_t n_bc, int nRules, int nSlots\)', 'emit':'static size_t Code_estimateCodeDataOut(size_t n_bc, int nRules, int nSlots)'}@*/

bool nondet_bool(void); unsigned nondet_unsigned(void); size_t nondet_size_t(void); int nondet_int(void); unsigned char nondet_uchar(void);

/* ------------------------------------------------------------------ region sizes: the interface between readPass and its readers.
   readPass (units c01_pass_offsets + c01_pass_codeptrs) proves each region lies inside the pass; the reader units allocate exactly these sizes. */
#define SZ_RANGES(nr)        (6 * (size_t)(nr))                                      /* c01_readranges: malloc(6 * w_nr) */
#define SZ_RULE_MAP(ne)      (2 * (size_t)(ne))
#define SZ_SORT_KEYS(R)      (2 * (size_t)(R))
#define SZ_PRECONTEXT(R)     ((size_t)(R))
#define SZ_CODE_OFFSETS(R)   (2 * ((size_t)(R) + 1))                                  /* o_constraint, o_actions: numRules+1 entries */
#define SZ_STARTS(ps)        (2 * ((size_t)(ps)->m_maxPreCtxt - (ps)->m_minPreCtxt + 1))   /* c01_readstates_tables: malloc(2 * NS), NS = max-min+1 */
#define SZ_TRANS(ps)         (2 * (size_t)(ps)->m_numTransition * (ps)->m_numColumns)       /* c01_readstates_tables: malloc(2 * NT) */
#define SZ_O_RULE_MAP(ps)    (2 * ((size_t)(ps)->m_numSuccess + 1))

/* ghost */
const byte *g_buf; size_t g_len, g_base;  /* the pass, subtable_base */
Pass *g_self;
#define IN_OBJ(p, n, obj, objlen)  (SAME((p), (obj)) && (size_t)OFF(p) <= (objlen) && (size_t)(n) <= (objlen) - (size_t)OFF(p))
#define IN_BUF(p, n)               IN_OBJ(p, n, g_buf, g_len)

/* flat address space model for the few relational operators the source applies to pointers that are NULL or lie BEFORE their
   object (CBMC orders such pointers by their unsigned offset field, i.e. a pointer one element before an array compares
   GREATER than the array): every object sits in its own 2^40-byte window, NULL is address 0 */
#define SOFF(p)        (((size_t)OFF(p) >> 53) & 1 ? ((size_t)OFF(p) | ~(((size_t)1 << 54) - 1)) : (size_t)OFF(p))   /* offset field of a pointer (64 - object_bits(10) = 54 bits), sign-extended */
#define FLAT(p)        ((p) == 0 ? (size_t)0 : ((size_t)__CPROVER_POINTER_OBJECT(p) << 40) + ((size_t)1 << 39) + SOFF(p))
#define FLAT_GE(a, b)  (FLAT(a) >= FLAT(b))
#define FLAT_GT(a, b)  (FLAT(a) > FLAT(b))

/* ================================================================== Pass::readPass */
#if defined(UNIT_c01_pass_offsets) || defined(CODEPTRS)
/* the local variables of readPass that are live at the cut (x1..x3: ghost, the three 32-bit code offsets of the header) */
typedef struct Cut { const byte *p, *pcCode, *rcCode, *aCode, *ranges, *o_rule_map, *rule_map, *start_states, *precontext;
                     const uint16 *sort_keys, *o_constraint, *o_actions; size_t numRanges, numEntries, pass_constraint_len, x1, x2, x3; } Cut;
#define CUT_PRECONTEXT(sort_keys, R)     ((const byte *)(sort_keys) + SZ_SORT_KEYS(R))
#define CUT_O_CONSTRAINT(precontext, R)  ((const uint16 *)((precontext) + (size_t)(R) + 3))          /* after numRules precontext bytes, colThreshold, pass_constraint_len */
#define CUT_O_ACTIONS(o_constraint, R)   ((o_constraint) + ((size_t)(R) + 1))
#define CUT_P(o_actions, R)              ((const byte *)((o_actions) + ((size_t)(R) + 1)))
#define CUT_CODE(x)                      (g_buf + (x) - g_base)
/* F(fact, text): asserted by c01_pass_offsets when the cut is reached, assumed by the harness of c01_pass_codeptrs */
#define CUT_FACTS(F, ps, c) \
    F((ps)->m_iMaxLoop >= 1, "cut: m_iMaxLoop >= 1") \
    F((ps)->m_numTransition <= (ps)->m_numStates && (ps)->m_numSuccess <= (ps)->m_numStates, "cut: numTransition <= numStates, numSuccess <= numStates") \
    F((unsigned)(ps)->m_numSuccess + (ps)->m_numTransition >= (ps)->m_numStates, "cut: numSuccess + numTransition >= numStates") \
    F((ps)->m_successStart == (ps)->m_numStates - (ps)->m_numSuccess, "cut: m_successStart = numStates - numSuccess") \
    F((ps)->m_numColumns <= 0x7FFF, "cut: numColumns <= 0x7FFF") \
    F((ps)->m_numRules != 0 || (ps)->m_numCollRuns != 0, "cut: a pass without rules is a collision pass") \
    F((ps)->m_numRules == 0 || (c)->numRanges != 0, "cut: a pass with rules has ranges") \
    F((ps)->m_minPreCtxt <= (ps)->m_maxPreCtxt, "cut: minPreCtxt <= maxPreCtxt") \
    F((ps)->m_numCollRuns <= 7 && (ps)->m_kernColls <= 3 && (ps)->m_colThreshold != 0, "cut: collision fields") \
    F((c)->numRanges <= 0xFFFF && (c)->numEntries <= 0xFFFF && (c)->pass_constraint_len <= 0xFFFF, "cut: 16-bit counts") \
    F((c)->x1 <= 0xFFFFFFFFu && (c)->x2 <= 0xFFFFFFFFu && (c)->x3 <= 0xFFFFFFFFu, "cut: 32-bit code offsets") \
    F((c)->pcCode == CUT_CODE((c)->x1) && (c)->rcCode == CUT_CODE((c)->x2) && (c)->aCode == CUT_CODE((c)->x3), "cut: pcCode/rcCode/aCode = pass_start + offset - subtable_base") \
    F(IN_BUF((c)->ranges, SZ_RANGES((c)->numRanges)), "cut: ranges (6*numRanges bytes) inside the pass") \
    F(IN_BUF((c)->o_rule_map, SZ_O_RULE_MAP(ps)), "cut: o_rule_map (numSuccess+1 offsets) inside the pass") \
    F(be_peek_uint16((c)->o_rule_map + 2 * (size_t)(ps)->m_numSuccess) == (c)->numEntries, "cut: numEntries is the last o_rule_map offset") \
    F(IN_BUF((c)->rule_map, SZ_RULE_MAP((c)->numEntries)), "cut: rule_map (2*numEntries bytes) inside the pass") \
    F(IN_BUF((c)->start_states, SZ_STARTS(ps)), "cut: start_states inside the pass") \
    F(IN_BUF((c)->sort_keys, SZ_SORT_KEYS((ps)->m_numRules)), "cut: sort_keys inside the pass") \
    F((c)->precontext == CUT_PRECONTEXT((c)->sort_keys, (ps)->m_numRules), "cut: precontext follows the sort keys") \
    F(IN_BUF((c)->precontext, SZ_PRECONTEXT((ps)->m_numRules) + 3), "cut: precontext, colThreshold and pass_constraint_len inside the pass") \
    F((c)->o_constraint == CUT_O_CONSTRAINT((c)->precontext, (ps)->m_numRules), "cut: o_constraint follows") \
    F((c)->o_actions == CUT_O_ACTIONS((c)->o_constraint, (ps)->m_numRules), "cut: o_actions follows") \
    F((c)->p == CUT_P((c)->o_actions, (ps)->m_numRules), "cut: the cursor follows o_actions")
#endif

#ifdef UNIT_c01_pass_offsets
static uint8 Silf_aCollision(const Silf *s) { (void)s; return nondet_uchar(); }
static byte  Silf_flags(const Silf *s) { (void)s; return nondet_uchar(); }
static bool  Glyphs_hasBoxes(void) { return nondet_bool(); }
Cut g_c; bool g_cut;
/*@extract {'if':'UNIT_c01_pass_offsets', 'file':'src/Pass.cpp', 'kind':'range', 'scope': r'bool Pass::readPass\(const byte \* const pass_start, size_t pass_length, size_t subtable_base,',
   'start': r'const byte \* p\s*= pass_start,', 'end': r'const byte \* const states = p;',
   'pre':'bool Pass_readPass_head(Pass *self, const byte *const pass_start, size_t pass_length, size_t subtable_base, Face *face, passtype pt, uint32 version, Error *e)\n{\n',
   'post':'''
    g_cut = true; g_c.p = p; g_c.pcCode = pcCode; g_c.rcCode = rcCode; g_c.aCode = aCode; g_c.ranges = ranges; g_c.o_rule_map = o_rule_map; g_c.rule_map = rule_map;
    g_c.start_states = start_states; g_c.precontext = precontext; g_c.sort_keys = sort_keys; g_c.o_constraint = o_constraint; g_c.o_actions = o_actions;
    g_c.numRanges = numRanges; g_c.numEntries = numEntries; g_c.pass_constraint_len = pass_constraint_len; (void)pass_end; (void)version;
    return true;
}
''',
   'casts': True, 'refs':['face','e'], 'methods':['test','error','error_context'],
   'subs':[[r'm_silf->aCollision\(\)', 'Silf_aCollision(m_silf)', 0], [r'face\.glyphs\(\)\.hasBoxes\(\)', 'Glyphs_hasBoxes()', 0], [r'm_silf->flags\(\)', 'Silf_flags(m_silf)', 0],
           [r'be::read<(\w+)>\(p\)', r'be_read_\1(&p)', 0], [r'be::skip<(\w+)>\(p\)', r'be_skip_\1(&p)', 0], [r'be::skip<(\w+)>\(p,\s*', r'be_skip_\1(&p, ', 0], [r'be::peek<(\w+)>\(', r'be_peek_\1(', 0]],
   'self':['m_silf','m_numCollRuns','m_kernColls','m_isReverseDir','m_iMaxLoop','m_numRules','m_numStates','m_numTransition','m_numSuccess','m_numColumns','m_successStart','m_numGlyphs',
           'm_minPreCtxt','m_maxPreCtxt','m_colThreshold']}@*/

#define ASSERT_F(fact, text) __CPROVER_assert(fact, text);
void h_offsets(void)
{
    Pass *ps = malloc(sizeof(Pass)); Face *f = malloc(sizeof(Face)); __CPROVER_assume(ps && f);
    size_t w_len = nondet_size_t(), w_base = nondet_size_t();
    __CPROVER_assume(w_len <= 0xFFFFFFFFu && w_base <= 0xFFFFFFFFu);        /* call site: uint32 pass_end - pass_start, uint32 pass_start */
    byte *buf = malloc(w_len); __CPROVER_assume(buf);                     /* exactly pass_length bytes, arbitrary contents */
    g_buf = buf; g_len = w_len; g_base = w_base; g_self = ps; g_cut = false;
    ps->m_isReverseDir = nondet_bool();
    Error e; e._e = 0;
    int w_pt = nondet_int(); __CPROVER_assume(w_pt >= PASS_TYPE_UNKNOWN && w_pt <= PASS_TYPE_JUSTIFICATION);
    bool r = Pass_readPass_head(ps, buf, w_len, w_base, f, (passtype)w_pt, nondet_unsigned(), &e);
    __CPROVER_assert(r == g_cut, "the first piece returns false exactly when it rejects the pass before the cut");
    __CPROVER_assert(!g_cut || w_len >= 40, "a pass shorter than its fixed header is rejected");
    if (g_cut) {
        g_c.x1 = be_peek_uint32(buf + 8); g_c.x2 = be_peek_uint32(buf + 12); g_c.x3 = be_peek_uint32(buf + 16);       /* header: pass constraint, rule constraint, action code offsets */
        CUT_FACTS(ASSERT_F, ps, (&g_c))
    }
    CANARY();
}
#endif

#ifdef CODEPTRS
int g_seq;                                /* 0 -> readRanges -> 1 -> readRules -> 2 -> readStates -> 3 */
bool g_ok_ranges, g_ok_rules, g_ok_states;
size_t g_numEntries;                      /* num_entries given to readRules */
int g_pc_calls;                           /* pass-constraint Code constructions */
static ptrdiff_t ptr_diff(const byte *a, const byte *b)
{
    __CPROVER_assert(SAME(a, b), "pointer difference: same object");
    return (ptrdiff_t)((size_t)OFF(a) - (size_t)OFF(b));
}
static bool Pass_readRanges(Pass *self, const byte *ranges, size_t num_ranges, Error *e)
{
    (void)e;
    __CPROVER_assert(g_seq == 0 && self->m_numRules != 0, "readRanges is the first reader, called once, only for a pass with rules");
    __CPROVER_assert(IN_BUF(ranges, SZ_RANGES(num_ranges)), "readRanges: the 6*num_ranges bytes it reads (c01_readranges) lie inside the pass");
    g_seq = 1;
    return g_ok_ranges = nondet_bool();
}
static bool Pass_readRules(Pass *self, const byte *rule_map, const size_t num_entries, const byte *precontext, const uint16 *sort_key,
                           const uint16 *o_constraint, const byte *rc_data, const uint16 *o_action, const byte *ac_data, Face *face, passtype pt, Error *e)
{
    (void)face; (void)pt; (void)e;
    const size_t R = self->m_numRules;
    __CPROVER_assert(g_seq == 1 && g_ok_ranges && R != 0, "readRules follows a successful readRanges, numRules >= 1");
    __CPROVER_assert(IN_BUF(rule_map, SZ_RULE_MAP(num_entries)), "readRules: rule map (2 bytes per entry) inside the pass");
    __CPROVER_assert(IN_BUF(precontext, SZ_PRECONTEXT(R)), "readRules: precontext bytes inside the pass");
    __CPROVER_assert(IN_BUF(sort_key, SZ_SORT_KEYS(R)), "readRules: sort keys inside the pass");
    __CPROVER_assert(IN_BUF(o_constraint, SZ_CODE_OFFSETS(R)), "readRules: constraint offsets (numRules+1) inside the pass");
    __CPROVER_assert(IN_BUF(o_action, SZ_CODE_OFFSETS(R)), "readRules: action offsets (numRules+1) inside the pass");
    __CPROVER_assert(IN_BUF(rc_data, be_peek_uint16(o_constraint + R)), "readRules: rule constraint code [rc_data, rc_data + o_constraint[numRules]) inside the pass");
    __CPROVER_assert(IN_BUF(ac_data, be_peek_uint16(o_action + R)), "readRules: action code [ac_data, ac_data + o_action[numRules]) inside the pass");
    g_numEntries = num_entries; g_seq = 2;
    return g_ok_rules = nondet_bool();
}
static bool Pass_readStates(Pass *self, const byte *starts, const byte *states, const byte *o_rule_map, Face *face, Error *e)
{
    (void)face; (void)e;
    __CPROVER_assert(g_seq == 2 && g_ok_rules && self->m_numRules != 0, "readStates follows a successful readRules");
    __CPROVER_assert(IN_BUF(starts, SZ_STARTS(self)), "readStates: start states inside the pass");
#if PART == 2
    __CPROVER_assert(IN_BUF(states, (size_t)(2u * self->m_numTransition * self->m_numColumns)), "readStates: transition table inside the pass (size as the 32-bit product the loader tests)");
    __CPROVER_assert((size_t)(2u * self->m_numTransition * self->m_numColumns) == SZ_TRANS(self), "readStates: the 32-bit product does not wrap: it is the table size 2*numTransition*numColumns");
#endif
    __CPROVER_assert((size_t)self->m_numTransition * self->m_numColumns <= INT_MAX, "readStates: numTransition*numColumns fits the int the loader computes it in");
    __CPROVER_assert(IN_BUF(o_rule_map, SZ_O_RULE_MAP(self)), "readStates: rule-map offsets (numSuccess+1) inside the pass");
    __CPROVER_assert(be_peek_uint16(o_rule_map + 2 * (size_t)self->m_numSuccess) == g_numEntries, "readStates: the last rule-map offset is the number of entries readRules allocated m_ruleMap for");
    g_seq = 3;
    return g_ok_states = nondet_bool();
}
/* vm::Machine::Code::Code(is_constraint, begin, end, pre_context, rule_length, silf, face, pt) assigned to m_cPConstraint */
static void Code_construct(Code *dst, bool is_constraint, const byte *b, const byte *e, uint8 pre, uint16 len)
{
    (void)pre; (void)len;
    __CPROVER_assert(dst == &g_self->m_cPConstraint && is_constraint && g_seq == 0, "pass constraint code, built before the readers run");
    __CPROVER_assert(SAME(b, g_buf) && SAME(e, g_buf) && OFF(b) <= OFF(e) && (size_t)OFF(e) <= g_len, "Code constructor: bytecode range ordered and inside the pass");
    g_pc_calls = g_pc_calls + 1;
    dst->_code = nondet_bool() ? (instr *)0 : (instr *)dst; dst->_status = (status_t)(nondet_unsigned() % 10); dst->_constraint = true; dst->_own = nondet_bool();
    dst->_modify = nondet_bool(); dst->_delete = nondet_bool();
}
#define Code_assign(dst, isc, b, e, pre, len, silf, face, pt) Code_construct(dst, isc, b, e, pre, len)

/*@extract {'if':'CODEPTRS', 'file':'src/Pass.cpp', 'kind':'range', 'scope': r'bool Pass::readPass\(const byte \* const pass_start, size_t pass_length, size_t subtable_base,',
   'start': r'const byte \* const states = p;', 'end': r'return m_numRules \? readStates\([^;]*;', 'end_inclusive': True,
   'pre':'''bool Pass_readPass_tail(Pass *self, const byte *const pass_start, const byte *const pass_end, Face *face, passtype pt, Error *e, const byte *p,
        const byte *const pcCode, const byte *const rcCode, const byte *const aCode, const byte *const ranges, const size_t numRanges, const byte *const o_rule_map,
        const byte *const rule_map, const size_t numEntries, const byte *const start_states, const uint16 *const sort_keys, const byte *const precontext,
        const size_t pass_constraint_len, const uint16 *const o_constraint, const uint16 *const o_actions)
{
    (void)pass_start;
''', 'post':'\n}\n',
   'casts': True, 'refs':['face','e'], 'methods':['test','error','error_context','status'],
   'subs':[[r'\(unsigned\)\(pass_end - p\)', '(unsigned)ptr_diff(pass_end, p)', 0],
           [r'be::read<(\w+)>\(p\)', r'be_read_\1(&p)', 0], [r'be::skip<(\w+)>\(p\)', r'be_skip_\1(&p)', 0], [r'be::skip<(\w+)>\(p,\s*', r'be_skip_\1(&p, ', 0], [r'be::peek<(\w+)>\(', r'be_peek_\1(', 0],
           [r'm_cPConstraint = vm::Machine::Code\(', 'Code_assign(&m_cPConstraint, ', 0], [r'!m_cPConstraint\b', '!Code_bool(&m_cPConstraint)', 0], [r'\bCode::loaded\b', 'loaded', 0],
           [r'\breadRanges\(([^;]*?),\s*e\)', r'Pass_readRanges(self, \1, &e)', 0], [r'\breadRules\(([^;]*?),\s*face,\s*pt,\s*e\)', r'Pass_readRules(self, \1, &face, pt, &e)', 0],
           [r'\breadStates\(([^;]*?),\s*face,\s*e\)', r'Pass_readStates(self, \1, &face, &e)', 0]],
   'self':['m_silf','m_numRules','m_numStates','m_numTransition','m_numSuccess','m_numColumns','m_successStart','m_minPreCtxt','m_maxPreCtxt','m_cPConstraint']}@*/

#define ASSUME_F(fact, text) __CPROVER_assume(fact);
static const byte *any_ptr(const byte *buf) { size_t o = nondet_size_t(); __CPROVER_assume(o <= 0xFFFFFFFFu); return buf + o; }
void h_codeptrs(void)
{
    Pass *ps = malloc(sizeof(Pass)); Face *f = malloc(sizeof(Face)); __CPROVER_assume(ps && f);
    size_t w_len = nondet_size_t(), w_base = nondet_size_t();
    __CPROVER_assume(w_len <= 0xFFFFFFFFu && w_base <= 0xFFFFFFFFu);
    byte *buf = malloc(w_len); __CPROVER_assume(buf);
    g_buf = buf; g_len = w_len; g_base = w_base; g_self = ps; g_seq = 0; g_pc_calls = 0; g_ok_ranges = g_ok_rules = g_ok_states = false;
    Error e; e._e = 0;
    int w_pt = nondet_int(); __CPROVER_assume(w_pt >= PASS_TYPE_UNKNOWN && w_pt <= PASS_TYPE_JUSTIFICATION);
    /* the state at the cut: arbitrary, subject to CUT_FACTS */
    Cut c;
    c.ranges = any_ptr(buf); c.o_rule_map = any_ptr(buf); c.rule_map = any_ptr(buf); c.start_states = any_ptr(buf); c.sort_keys = (const uint16 *)any_ptr(buf);
    c.numRanges = nondet_size_t(); c.numEntries = nondet_size_t(); c.pass_constraint_len = nondet_size_t(); c.x1 = nondet_size_t(); c.x2 = nondet_size_t(); c.x3 = nondet_size_t();
    __CPROVER_assume(c.x1 <= 0xFFFFFFFFu && c.x2 <= 0xFFFFFFFFu && c.x3 <= 0xFFFFFFFFu);
    c.pcCode = CUT_CODE(c.x1); c.rcCode = CUT_CODE(c.x2); c.aCode = CUT_CODE(c.x3);
    c.precontext = CUT_PRECONTEXT(c.sort_keys, ps->m_numRules);
    c.o_constraint = CUT_O_CONSTRAINT(c.precontext, ps->m_numRules); c.o_actions = CUT_O_ACTIONS(c.o_constraint, ps->m_numRules); c.p = CUT_P(c.o_actions, ps->m_numRules);
    CUT_FACTS(ASSUME_F, ps, (&c))
    bool ok = Pass_readPass_tail(ps, buf, buf + w_len, f, (passtype)w_pt, &e, c.p, c.pcCode, c.rcCode, c.aCode, c.ranges, c.numRanges, c.o_rule_map, c.rule_map, c.numEntries,
                                 c.start_states, c.sort_keys, c.precontext, c.pass_constraint_len, c.o_constraint, c.o_actions);
    if (ok) {
        __CPROVER_assert(g_seq == (ps->m_numRules != 0 ? 3 : 0), "accepted: the three readers ran (in order, once each) iff the pass has rules");
        __CPROVER_assert(ps->m_numRules == 0 || (g_ok_ranges && g_ok_rules && g_ok_states), "accepted: every reader returned success");
        __CPROVER_assert(g_pc_calls == (c.pass_constraint_len != 0 ? 1 : 0), "accepted: the pass constraint is built once iff it is not empty");
        __CPROVER_assert(g_pc_calls == 0 || (ps->m_cPConstraint._code != 0 && ps->m_cPConstraint._status == loaded), "accepted: the pass constraint code is loaded");
        /* the code areas are contiguous and end inside the pass */
#if PART == 2
        __CPROVER_assert(SAME(c.pcCode, buf) && (size_t)OFF(c.pcCode) == (size_t)OFF(c.p) + SZ_TRANS(ps) + 1, "accepted: pcCode follows the transition table and one byte");
#endif
        __CPROVER_assert(SAME(c.rcCode, buf) && (size_t)OFF(c.rcCode) == (size_t)OFF(c.pcCode) + c.pass_constraint_len, "accepted: rcCode = pcCode + pass_constraint_len");
        __CPROVER_assert(SAME(c.aCode, buf) && (size_t)OFF(c.aCode) == (size_t)OFF(c.rcCode) + be_peek_uint16(c.o_constraint + ps->m_numRules), "accepted: aCode = rcCode + o_constraint[numRules]");
        __CPROVER_assert((size_t)OFF(c.aCode) + be_peek_uint16(c.o_actions + ps->m_numRules) <= w_len, "accepted: aCode + o_actions[numRules] <= pass_end");
    }
    CANARY();
}
#endif

/* ================================================================== Pass::readRules */
#ifdef READRULES
const byte *g_rcobj, *g_acobj; size_t g_rclen, g_aclen;      /* the objects that hold the constraint / action bytecode */
Rule *g_rules_alloc; Code *g_codes_alloc; RuleEntry *g_map_alloc; bool g_map_called;
byte *g_pool_live; size_t g_pool_sz; bool g_pool_called;     /* program pool: the live block (NULL once freed) and its size */
size_t g_ctor_calls, g_moved_calls;
size_t g_cb[4], g_ce[4]; uint8 g_cpre[4]; uint16 g_clen[4]; bool g_cisc[4];      /* per m_codes slot: the constructor arguments */

/* operator new[] (CLASS_NEW_DELETE: gralloc<byte>(size)) followed by the default constructors Rule::Rule() / Code::Code() */
static Rule *Rule_new_array(size_t n)
{
    __CPROVER_assert(n == 1 || n == 2, "bound of this unit");        /* one malloc per concrete size: symbolic-size struct arrays exhaust the solver */
    Rule *r = nondet_bool() ? (Rule *)0 : n == 1 ? (Rule *)malloc(1 * sizeof(Rule)) : (Rule *)malloc(2 * sizeof(Rule));
    if (r) for (size_t i = 0; i < n; ++i) { r[i].constraint = 0; r[i].action = 0; r[i].sort = 0; r[i].preContext = 0; r[i].rule_idx = 0; }
    return g_rules_alloc = r;
}
static Code *Code_new_array(size_t n)
{
    __CPROVER_assert(n == 2 || n == 4, "bound of this unit");
    Code *c = nondet_bool() ? (Code *)0 : n == 2 ? (Code *)malloc(2 * sizeof(Code)) : (Code *)malloc(4 * sizeof(Code));
    if (c) for (size_t i = 0; i < n; ++i) { c[i]._code = 0; c[i]._data = 0; c[i]._data_size = 0; c[i]._instr_count = 0; c[i]._max_ref = 0; c[i]._status = loaded;
                                            c[i]._constraint = false; c[i]._modify = false; c[i]._delete = false; c[i]._own = false; }
    return g_codes_alloc = c;
}
static byte *gralloc_byte(size_t n)
{
    __CPROVER_assert(!g_pool_called, "one program pool");
    g_pool_called = true; g_pool_sz = n;
    return g_pool_live = nondet_bool() ? (byte *)0 : (byte *)malloc(n);
}
static RuleEntry *gralloc_RuleEntry(size_t n)
{
    __CPROVER_assert(!g_map_called, "one rule map");
    g_map_called = true;
    __CPROVER_assert(n <= 3, "bound of this unit");
    return g_map_alloc = nondet_bool() ? (RuleEntry *)0 : n == 0 ? (RuleEntry *)malloc(0) : n == 1 ? (RuleEntry *)malloc(sizeof(RuleEntry)) : n == 2 ? (RuleEntry *)malloc(2 * sizeof(RuleEntry)) : (RuleEntry *)malloc(3 * sizeof(RuleEntry));
}
static void *realloc_model(void *p, size_t n)
{
    __CPROVER_assert(p != 0 && p == g_pool_live && n > 0 && n <= g_pool_sz, "realloc: shrinks the live program pool to the part in use");
    if (nondet_bool()) return 0;                         /* failure: the old block stays valid */
    if (nondet_bool()) return p;
    void *q = malloc(n);
    if (!q) return 0;
    free(p); g_pool_live = q;
    return q;
}
#define realloc(p, n) realloc_model(p, n)
static void free_model(void *p)
{
    if (p != 0 && p == g_pool_live) g_pool_live = 0;
    free(p);
}
#define free(p) free_model(p)
/* new (at) vm::Machine::Code(is_constraint, begin, end, pre_context, rule_length, silf, face, pt, &prog_pool_free) */
static Code *Code_construct(Code *at, bool is_constraint, const byte *b, const byte *e, uint8 pre, uint16 len, byte **out)
{
    const Pass *ps = g_self;
    const size_t k = at == &ps->m_codes[0] ? 0 : at == &ps->m_codes[1] ? 1 : at == &ps->m_codes[2] ? 2 : at == &ps->m_codes[3] ? 3 : 4;
    __CPROVER_assert(k < 2 * (size_t)ps->m_numRules, "Code constructor: placement address is an element of m_codes");
    const byte *obj = is_constraint ? g_rcobj : g_acobj; const size_t objlen = is_constraint ? g_rclen : g_aclen;
    __CPROVER_assert(SAME(b, obj) && SAME(e, obj) && OFF(b) <= OFF(e) && (size_t)OFF(e) <= objlen, "Code constructor: bytecode range ordered and inside the code area");
    const size_t nbc = (size_t)OFF(e) - (size_t)OFF(b);
    if (nbc) { byte first = b[0], last = e[-1]; (void)first; (void)last; }                 /* the decoder reads inside [b, e) */
    const size_t budget = Code_estimateCodeDataOut(nbc, 1, is_constraint ? 0 : len);      /* the size of the constructor's own malloc branch */
    __CPROVER_assert(*out != 0 && SAME(*out, g_pool_live) && (size_t)OFF(*out) <= g_pool_sz && budget <= g_pool_sz - (size_t)OFF(*out), "Code constructor: room for its working budget in the program pool");
    size_t use = nondet_size_t(); __CPROVER_assume(use <= budget);
    *out += use;
    g_cb[k] = (size_t)OFF(b); g_ce[k] = (size_t)OFF(e); g_cpre[k] = pre; g_clen[k] = len; g_cisc[k] = is_constraint; g_ctor_calls = g_ctor_calls + 1;
    at->_code = nondet_bool() ? (instr *)0 : (instr *)at; at->_data = 0; at->_data_size = 0; at->_instr_count = 0; at->_max_ref = nondet_uchar();
    at->_status = (status_t)(nondet_unsigned() % 10); at->_constraint = is_constraint; at->_modify = nondet_bool(); at->_delete = nondet_bool(); at->_own = false;
    return at;
}
#define Code_construct_at(at, isc, b, e, pre, len, silf, face, pt, out) Code_construct(at, isc, b, e, pre, len, out)
static void Code_moved_model(Code *c)
{
    const Pass *ps = g_self;
    const size_t k = c == &ps->m_codes[0] ? 0 : c == &ps->m_codes[1] ? 1 : c == &ps->m_codes[2] ? 2 : c == &ps->m_codes[3] ? 3 : 4;
    __CPROVER_assert(k < 2 * (size_t)ps->m_numRules, "externalProgramMoved: an element of m_codes");
    g_moved_calls = g_moved_calls + 1;
}
#define M_externalProgramMoved_1(c, dist) Code_moved_model(c)       /* dist = moved_progs - m_progs: flat-address-space difference of two blocks, not evaluated */

/*@extract {'if':'READRULES', 'file':'src/Pass.cpp', 'sig': r'bool Pass::readRules\([^)]*\)',
   'emit':'bool Pass_readRules(Pass *self, const byte *rule_map, const size_t num_entries, const byte *precontext, const uint16 *sort_key, const uint16 *o_constraint, const byte *rc_data, const uint16 *o_action, const byte *ac_data, Face *face, passtype pt, Error *e)',
   'casts': True, 'refs':['face','e'], 'methods':['test','error','error_context','status','immutable','externalProgramMoved'],
   'subs':[[r'be::peek<(\w+)>\(', r'be_peek_\1(', 0], [r'be::read<(\w+)>\((\w+)\)', r'be_read_\1(&\2)', 0],
           [r'new Rule \[([^\]]*)\]', r'Rule_new_array(\1)', 0], [r'new Code \[([^\]]*)\]', r'Code_new_array(\1)', 0],
           [r'vm::Machine::Code::estimateCodeDataOut\(', 'Code_estimateCodeDataOut(', 0], [r'gralloc<(\w+)>\(', r'gralloc_\1(', 0],
           [r'new \(([^()]*)\) vm::Machine::Code\(', r'Code_construct_at(\1, ', 0], [r'\bCode::loaded\b', 'loaded', 0],
           [r'; r >= m_rules;', '; FLAT_GE(r, m_rules);', 0]],
   'self':['m_numRules','m_rules','m_codes','m_progs','m_maxPreCtxt','m_minPreCtxt','m_ruleMap','m_silf']}@*/
#undef free
#undef realloc

#define BE16(p) ((unsigned)(((const byte *)(p))[0] << 8 | ((const byte *)(p))[1]))
void h_readrules(void)
{
    Pass *ps = malloc(sizeof(Pass)); Face *f = malloc(sizeof(Face)); __CPROVER_assume(ps && f);
    size_t w_ne = nondet_size_t();
    __CPROVER_assume(w_ne <= MAXNE);                      /* call site: readRules only runs for m_numRules != 0 */
    ps->m_rules = 0; ps->m_codes = 0; ps->m_progs = 0; ps->m_ruleMap = 0; g_self = ps;
    Error e; e._e = 0;
    int w_pt = nondet_int(); __CPROVER_assume(w_pt >= PASS_TYPE_UNKNOWN && w_pt <= PASS_TYPE_JUSTIFICATION);
    /* every table is its own exact-size object (sizes: the SZ_* regions c01_pass_codeptrs proves to lie inside the pass) */
#define RUN(R, NE) { \
        ps->m_numRules = (R); \
        byte *rm = malloc(SZ_RULE_MAP(NE)), *pc = malloc(SZ_PRECONTEXT(R)), *sk = malloc(SZ_SORT_KEYS(R)), *oc = malloc(SZ_CODE_OFFSETS(R)), *oa = malloc(SZ_CODE_OFFSETS(R)); \
        __CPROVER_assume(rm && pc && sk && oc && oa); \
        g_rclen = BE16(oc + 2 * (R)); g_aclen = BE16(oa + 2 * (R));            /* lengths of the code areas: the last offset entries */ \
        __CPROVER_assume(g_rclen <= MAXCODE && g_aclen <= MAXCODE);                        /* bound */ \
        byte *rc = malloc(g_rclen), *ac = malloc(g_aclen); __CPROVER_assume(rc && ac); \
        g_rcobj = rc; g_acobj = ac; \
        bool ok = Pass_readRules(ps, rm, (NE), pc, (const uint16 *)sk, (const uint16 *)oc, rc, (const uint16 *)oa, ac, f, (passtype)w_pt, &e); \
        /* ownership on every return: what was allocated is freed or held by the member the destructor frees */ \
        __CPROVER_assert(ps->m_rules == g_rules_alloc && ps->m_codes == g_codes_alloc, "every return: the Rule / Code arrays are owned by m_rules / m_codes"); \
        __CPROVER_assert(ps->m_progs == g_pool_live, "every return: the program pool is freed or owned by m_progs"); \
        __CPROVER_assert(ps->m_ruleMap == g_map_alloc, "every return: the rule map is owned by m_ruleMap"); \
        if (ok) { \
            __CPROVER_assert(ps->m_rules && OBJSZ(ps->m_rules) == (R) * sizeof(Rule) && ps->m_codes && OBJSZ(ps->m_codes) == 2 * (R) * sizeof(Code), "accepted: m_rules has numRules, m_codes 2*numRules elements"); \
            __CPROVER_assert(ps->m_ruleMap && OBJSZ(ps->m_ruleMap) == (NE) * sizeof(RuleEntry), "accepted: m_ruleMap has num_entries elements"); \
            __CPROVER_assert(ps->m_progs != 0 && g_ctor_calls == 2 * (R), "accepted: a live program pool, two Code objects per rule"); \
            for (unsigned i = 0; i < (R); ++i) { const Rule *r = &ps->m_rules[i]; \
                __CPROVER_assert(r->sort == BE16(sk + 2 * i) && r->preContext == pc[i], "accepted: sort and preContext are the font values"); \
                __CPROVER_assert(r->sort >= 1 && r->sort <= 63 && r->preContext < r->sort && r->preContext >= ps->m_minPreCtxt && r->preContext <= ps->m_maxPreCtxt, "accepted: 1 <= sort <= 63, preContext < sort, minPreCtxt <= preContext <= maxPreCtxt"); \
                __CPROVER_assert(r->action == &ps->m_codes[2 * i] && r->constraint == &ps->m_codes[2 * i + 1], "accepted: action / constraint are m_codes[2i] / m_codes[2i+1]"); \
                __CPROVER_assert(r->action->_status == loaded && r->constraint->_status == loaded && !r->constraint->_modify && !r->constraint->_delete && !r->action->_constraint && r->constraint->_constraint, "accepted: both codes loaded, the constraint immutable"); \
                __CPROVER_assert(g_cpre[2 * i] == r->preContext && g_clen[2 * i] == r->sort && g_cpre[2 * i + 1] == r->preContext && g_clen[2 * i + 1] == r->sort, "accepted: the codes were analysed with this rule's preContext and length"); \
                __CPROVER_assert(g_cb[2 * i] == BE16(oa + 2 * i) && g_ce[2 * i] == BE16(oa + 2 * i + 2), "accepted: the action code of rule i is [o_action[i], o_action[i+1]) of the action area"); \
                __CPROVER_assert(BE16(oc + 2 * i) == 0 ? g_cb[2 * i + 1] == g_ce[2 * i + 1] : g_cb[2 * i + 1] == BE16(oc + 2 * i), "accepted: the constraint of rule i starts at o_constraint[i], or is empty when that offset is 0"); \
            } \
            for (unsigned k = 0; k < (NE); ++k) \
                __CPROVER_assert(BE16(rm + 2 * k) < (R) && ps->m_ruleMap[k].rule == ps->m_rules + BE16(rm + 2 * k), "accepted: every rule-map entry points to m_rules[k], k < numRules the font value"); \
        } }
    g_pool_called = g_map_called = false; g_ctor_calls = g_moved_calls = 0; g_rules_alloc = 0; g_codes_alloc = 0; g_map_alloc = 0; g_pool_live = 0;
    RUN(NR, w_ne)
#undef RUN
    CANARY();
}
#endif

/* ================================================================== Pass::readStates */
#ifdef UNIT_c01_pass_readstates
const Rule *g_rules; size_t g_nrules;
size_t g_ne;                                   /* entries of m_ruleMap = the last o_rule_map offset (c01_pass_codeptrs / c01_pass_readrules) */
size_t g_qs_calls, g_qs_lo[3], g_qs_n[3];      /* log of the qsort calls: first entry and count */
/*@extract {'if':'UNIT_c01_pass_readstates', 'file':'src/inc/Rule.h', 'scope': r'struct RuleEntry\s*\{', 'sig': r'bool operator < \(const RuleEntry &r\) const',
            'emit':'static bool RuleEntry_lt(const RuleEntry *self, const RuleEntry *r)', 'subs':[[r'\br\.rule\b', 'r->rule', 0]], 'self':['rule']}@*/
/*@extract {'if':'UNIT_c01_pass_readstates', 'file':'src/Pass.cpp', 'sig': r'static int cmpRuleEntry\(const void \*a, const void \*b\)', 'emit':'static int cmpRuleEntry(const void *a, const void *b)',
            'subs':[[r'\*\(RuleEntry \*\)(\w+) < \*\(RuleEntry \*\)(\w+)', r'RuleEntry_lt((RuleEntry *)\1, (RuleEntry *)\2)', 0]]}@*/
/* gralloc<T>(n): NULL or n elements; one malloc per concrete size (symbolic-size arrays exhaust the solver) */
#define GRALLOC_MODEL(T) static T *gralloc_##T(size_t n) { __CPROVER_assert(n <= 3, "bound of this unit"); \
    return nondet_bool() ? (T *)0 : n == 0 ? (T *)malloc(0) : n == 1 ? (T *)malloc(sizeof(T)) : n == 2 ? (T *)malloc(2 * sizeof(T)) : (T *)malloc(3 * sizeof(T)); }
GRALLOC_MODEL(uint16)
GRALLOC_MODEL(State)
static bool sorted_at(const RuleEntry *l, size_t n)         /* ascending for the comparator the loader sorts with (equal neighbours allowed) */
{
    bool ok = true;
    for (size_t i = 0; i + 1 < 3; ++i) if (i + 1 < n) ok = ok & (cmpRuleEntry(&l[i], &l[i + 1]) <= 0);
    return ok;
}
/* C++ [expr.add]: the difference of two null pointers is 0; C (and CBMC) leave it undefined.  For equal pointers the result is 0 in both. */
#define PDIFF(a, b) ((a) == (b) ? (ptrdiff_t)0 : (a) - (b))
typedef int cmp_fn(const void *, const void *);
static void qsort_model(void *base, size_t n, size_t size, cmp_fn *cmp)
{
    const Pass *ps = g_self;
    __CPROVER_assert(base != 0 && size == sizeof(RuleEntry) && cmp == cmpRuleEntry, "qsort: non-NULL base, element size and comparator of RuleEntry");
    __CPROVER_assert(SAME(base, ps->m_ruleMap) && (size_t)OFF(base) % sizeof(RuleEntry) == 0 && n <= g_ne && (size_t)OFF(base) / sizeof(RuleEntry) <= g_ne - n, "qsort: the range lies inside m_ruleMap");
    __CPROVER_assert(g_qs_calls < 3, "bound of this unit");
    g_qs_lo[g_qs_calls] = (size_t)OFF(base) / sizeof(RuleEntry); g_qs_n[g_qs_calls] = n; g_qs_calls = g_qs_calls + 1;
    /* effect: an arbitrary permutation of the n entries that is ascending for cmp */
    RuleEntry *a = (RuleEntry *)base, t[3];
    for (size_t i = 0; i < 3; ++i) if (i < n) t[i] = a[i];
    size_t p0 = nondet_size_t(), p1 = nondet_size_t(), p2 = nondet_size_t();
    __CPROVER_assume(p0 < n || n == 0); __CPROVER_assume(n < 2 || (p1 < n && p1 != p0)); __CPROVER_assume(n < 3 || (p2 < n && p2 != p0 && p2 != p1));
    if (n > 0) a[0] = t[p0];
    if (n > 1) a[1] = t[p1];
    if (n > 2) a[2] = t[p2];
    __CPROVER_assume(sorted_at(a, n));
}

/*@extract {'if':'UNIT_c01_pass_readstates', 'file':'src/Pass.cpp', 'sig': r'bool Pass::readStates\([^)]*\)',
   'emit':'bool Pass_readStates(Pass *self, const byte *starts, const byte *states, const byte *o_rule_map, Face *face, Error *e)',
   'casts': True, 'refs':['face','e'], 'methods':['test','error','error_context'],
   'subs':[[r'be::peek<(\w+)>\(', r'be_peek_\1(', 0], [r'be::read<(\w+)>\((\w+)\)', r'be_read_\1(&\2)', 0], [r'gralloc<(\w+)>\(', r'gralloc_\1(', 0],
           [r'FiniteStateMachine::MAX_RULES', 'MAX_RULES', 0], [r'\bqsort\(', 'qsort_model(', 0],
           [r'\b(begin|end) (>=|>) (rule_map_end|end)\b', r'FLAT(\1) \2 FLAT(\3)', 0], [r'\bend - begin\b', 'PDIFF(end, begin)', 0]],
   'self':['m_startStates','m_states','m_transitions','m_maxPreCtxt','m_minPreCtxt','m_numStates','m_numTransition','m_numColumns','m_numSuccess','m_ruleMap']}@*/

#define BE16(p) ((unsigned)(((const byte *)(p))[0] << 8 | ((const byte *)(p))[1]))
void h_states(void)
{
    Pass *ps = malloc(sizeof(Pass)); Face *f = malloc(sizeof(Face)); __CPROVER_assume(ps && f);
    g_self = ps;
    unsigned w_nst = nondet_unsigned(), w_nsucc = nondet_unsigned(), w_ns = nondet_unsigned(), w_nt = nondet_unsigned(); bool w_wide = nondet_bool();
    __CPROVER_assume(w_nst <= 3 && w_nsucc <= w_nst && w_ns >= 1 && w_ns <= 2 && w_nt <= 2);
    /* scalars as c01_pass_offsets leaves them: minPreCtxt <= maxPreCtxt, numSuccess <= numStates */
    ps->m_numStates = w_nst; ps->m_numSuccess = w_nsucc; ps->m_successStart = w_nst - w_nsucc;
    __CPROVER_assume((unsigned)ps->m_minPreCtxt + w_ns - 1 <= 255); ps->m_maxPreCtxt = ps->m_minPreCtxt + w_ns - 1;
    if (w_wide) { ps->m_numTransition = 1; ps->m_numColumns = w_nt; } else { ps->m_numTransition = w_nt; ps->m_numColumns = 1; }
    ps->m_startStates = 0; ps->m_transitions = 0; ps->m_states = 0;
    /* the pass's rules (sort keys arbitrary) and its rule map: g_ne entries, each pointing to a rule (c01_pass_readrules) */
    Rule *rs = malloc(3 * sizeof(Rule)); __CPROVER_assume(rs); g_rules = rs; g_nrules = 3;
    /* exact-size tables, arbitrary bytes */
    byte *st = malloc(SZ_STARTS(ps)), *tr = malloc(SZ_TRANS(ps)), *orm = malloc(SZ_O_RULE_MAP(ps)); __CPROVER_assume(st && tr && orm);
    g_ne = BE16(orm + 2 * w_nsucc); __CPROVER_assume(g_ne <= 3);
    RuleEntry *map = g_ne == 0 ? malloc(0) : g_ne == 1 ? malloc(sizeof(RuleEntry)) : g_ne == 2 ? malloc(2 * sizeof(RuleEntry)) : malloc(3 * sizeof(RuleEntry)); __CPROVER_assume(map);
    for (unsigned k = 0; k < 3; ++k) if (k < g_ne) { unsigned x = nondet_unsigned(); __CPROVER_assume(x < 3); map[k].rule = rs + x; }
    ps->m_ruleMap = map;
    g_qs_calls = 0;
    Error e; e._e = 0;
    bool ok = Pass_readStates(ps, st, tr, orm, f, &e);
    if (ok) {
        __CPROVER_assert(ps->m_startStates && OBJSZ(ps->m_startStates) == SZ_STARTS(ps) && ps->m_transitions && OBJSZ(ps->m_transitions) == SZ_TRANS(ps) && ps->m_states && OBJSZ(ps->m_states) == w_nst * sizeof(State),
                         "accepted: m_startStates, m_transitions, m_states have max-min+1, numTransition*numColumns, numStates elements");
        for (unsigned i = 0; i < 2; ++i) if (i < w_ns) __CPROVER_assert(ps->m_startStates[i] == BE16(st + 2 * i) && ps->m_startStates[i] < w_nst, "accepted: every start state is the font value and < numStates");
        for (unsigned i = 0; i < 2; ++i) if (i < w_nt) __CPROVER_assert(ps->m_transitions[i] == BE16(tr + 2 * i) && ps->m_transitions[i] < w_nst, "accepted: every transition is the font value and < numStates");
        __CPROVER_assert(g_qs_calls == w_nsucc, "accepted: one qsort per success state");
        const unsigned first = w_nst - w_nsucc;
        for (unsigned k = 0; k < 3; ++k) if (k < w_nst) {
            const State *s = &ps->m_states[k];
            if (k < first) __CPROVER_assert(s->rules == 0 && s->rules_end == 0, "accepted: a state below m_successStart has the empty NULL list");
            else {
                const unsigned j = k - first, b = BE16(orm + 2 * j), en = BE16(orm + 2 * j + 2);
                __CPROVER_assert(b < g_ne && b <= en && en <= g_ne, "accepted: success state offsets: begin < numEntries, begin <= end <= numEntries");
                __CPROVER_assert(s->rules == map + b && s->rules_end == map + en && en - b <= MAX_RULES, "accepted: State.rules / rules_end delimit exactly that range of m_ruleMap (at most MAX_RULES entries)");
                __CPROVER_assert(g_qs_lo[j] == b && g_qs_n[j] == en - b, "accepted: qsort was called on exactly that range");
                /* sortedness after the whole load (later states sort disjoint ranges: begin_j+1 = end_j) */
                __CPROVER_assert(sorted_at(s->rules, en - b), "accepted: the state's list is ascending for cmpRuleEntry after the whole load");
            }
        }
    }
    CANARY();
}
#endif

/* ================================================================== Pass::readRules: the totalSlots accumulation (unbounded)
   On the pinned tree the accumulator was an int and the obligation Pass_totalSlots.overflow.* failed: a genuine signed integer overflow
   (undefined behaviour) for numRules >= 32769 with large sort keys, reproduced natively with UBSan: Pass.cpp:216 "signed integer overflow:
   2147450880 + 65535 cannot be represented in type 'int'" (numRules = 40000, sort keys 0xFFFF).  Repaired in /repo (fix: d2720d53, unsigned
   accumulator); the unit now passes and reports the overflow again should it return. */
/*@unit {'name':'c01_pass_totalslots', 'props':['C01'], 'entry':'h_totalslots', 'enforce':'Pass_totalSlots', 'min_loops':1,
  'claims':'the sum of the rule lengths (sort keys) that sizes the program pool in Pass::readRules: reads exactly the numRules sort keys and the accumulation has no signed overflow for any number of rules and any sort keys (the sum of at most 65535 16-bit values fits the unsigned accumulator)'}@*/
#ifdef UNIT_c01_pass_totalslots
const uint16 *g_sk; size_t g_R;
long Pass_totalSlots(Pass *self, const uint16 *sort_key)
__CPROVER_requires(sort_key == g_sk + g_R && self->m_numRules == g_R)
__CPROVER_assigns()
__CPROVER_ensures(1);
/*@extract {'if':'UNIT_c01_pass_totalslots', 'file':'src/Pass.cpp', 'kind':'range', 'scope': r'bool Pass::readRules\(const byte \* rule_map, const size_t num_entries,',
   'start': r'(?:unsigned )?int totalSlots = 0;', 'end': r'const size_t prog_pool_sz',
   'pre':'long Pass_totalSlots(Pass *self, const uint16 *sort_key)\n{\n', 'post':'\n    return totalSlots;\n}\n',
   'subs':[[r'be::peek<(\w+)>\(', r'be_peek_\1(', 0]], 'self':['m_numRules'],
   'loops':{1:'__CPROVER_assigns(i, totalSlots, tsort) __CPROVER_loop_invariant(i >= 0 && i <= self->m_numRules && SAME(tsort, g_sk) && (size_t)OFF(tsort) == 2 * (g_R - (size_t)i)) __CPROVER_decreases(self->m_numRules - i)'}}@*/
void h_totalslots(void)
{
    Pass *ps = malloc(sizeof(Pass)); __CPROVER_assume(ps);
    g_R = ps->m_numRules;
    uint16 *sk = malloc(SZ_SORT_KEYS(g_R)); __CPROVER_assume(sk);
    g_sk = sk;
    int r = Pass_totalSlots(ps, sk + g_R);
    (void)r;
    CANARY();
}
#endif
