/* C02 - Segment::newSlot (src/Segment.cpp): the growth cap and the slot-block initialisation.
 * Bounded unit: block sizes m_bufSize 1..3 and 0..2 user attributes (one call per concrete size), arbitrary counts.
 */
#include "types.h"
/*@unit {'name':'c02_new_slot', 'props':['C02','C03'], 'entry':'h_newslot', 'kind':'bounded', 'unwind':5,
  'bound':'slot blocks of 1..3 slots with 0..2 user attributes each; glyph / character counts arbitrary',
  'claims':'Segment::newSlot: with an empty free list it refuses to allocate once the segment has more than 64 slots per input character (MAX_SEG_GROWTH_FACTOR); otherwise a fresh block is initialised with every slot inside the slot array, every user-attribute pointer inside the attribute array with room for numUser entries, and the rest of the block chained on the free list; with a non-empty free list it pops the head and detaches it'}@*/
/*@include slots.tc@*/
/*@extract {'file':'src/inc/Segment.h', 'kind':'define', 'name':'MAX_SEG_GROWTH_FACTOR'}@*/
bool nondet_bool(void); unsigned nondet_unsigned(void); size_t nondet_size_t(void);
static size_t g_numUser;
static uint8 Silf_numUser(const Silf *s) { (void)s; return (uint8)g_numUser; }
static void *grzeroalloc_bytes(size_t n, size_t sz) { return nondet_bool() ? (void *)0 : calloc(n, sz); }
static Slot *g_block; static int16 *g_attrs; static int g_pushes;
static void SlotRope_push_back(Segment *s, Slot *p) { (void)s; g_block = p; ++g_pushes; }
static void AttributeRope_push_back(Segment *s, int16 *p) { (void)s; g_attrs = p; ++g_pushes; }
/*@extract {'file':'src/Segment.cpp', 'sig': r'Slot \*Segment::newSlot\(\)', 'emit':'Slot *Segment_newSlot(Segment *self)',
   'subs':[[r'm_silf->numUser\(\)', 'Silf_numUser(self->m_silf)', 0], [r'grzeroalloc<Slot>\(([^;]*)\);', r'(Slot *)grzeroalloc_bytes(\1, sizeof(Slot));', 0], [r'grzeroalloc<int16>\(([^;]*)\);', r'(int16 *)grzeroalloc_bytes(\1, sizeof(int16));', 0],
           [r'::new \(newSlots \+ i\) Slot\(', 'Slot_ctor(newSlots + i, ', 0], [r'm_slots\.push_back\(', 'SlotRope_push_back(self, ', 0], [r'm_userAttrs\.push_back\(', 'AttributeRope_push_back(self, ', 0]],
   'methods':['next'], 'self':['m_freeSlots','m_numGlyphs','m_numCharinfo','m_silf','m_face','m_bufSize']}@*/
void h_newslot(void)
{
    Segment *sg = malloc(sizeof(Segment)); __CPROVER_assume(sg);
    sg->m_freeSlots = (Slot *)0; sg->m_silf = 0; sg->m_face = 0;
    unsigned bs = nondet_unsigned(), nu = nondet_unsigned();
    __CPROVER_assume(bs >= 1 && bs <= 3 && nu <= 2);
    __CPROVER_assume(sg->m_numCharinfo <= ((size_t)1 << 40));
    bool capped = sg->m_numGlyphs > sg->m_numCharinfo * MAX_SEG_GROWTH_FACTOR;
#define RUN(B, U) if (bs == (B) && nu == (U)) { sg->m_bufSize = (B); g_numUser = (U); g_block = 0; g_attrs = 0; g_pushes = 0; \
        Slot *r = Segment_newSlot(sg); \
        if (capped) __CPROVER_assert(r == (Slot *)0 && g_pushes == 0, "newSlot: no allocation beyond 64 slots per input character"); \
        if (r) { __CPROVER_assert(!capped && r == g_block && g_pushes == 2, "newSlot: the block and its attribute array are recorded for release"); \
            for (int i = 0; i < (B); ++i) { \
                __CPROVER_assert((U) == 0 || (g_block[i].m_userAttr == g_attrs + i * (U)), "newSlot: slot i owns attribute cells [i*numUser, (i+1)*numUser)"); \
                if (i >= 1 && i < (B) - 1) __CPROVER_assert(g_block[i].m_next == &g_block[i + 1], "newSlot: free slots are chained in order"); } \
            __CPROVER_assert(g_block[0].m_next == (Slot *)0 && g_block[(B) - 1].m_next == (Slot *)0, "newSlot: the returned slot and the last slot end their chains"); \
            __CPROVER_assert(sg->m_freeSlots == ((B) > 1 ? &g_block[1] : (Slot *)0), "newSlot: the rest of the block is the free list"); } }
    RUN(1,0) RUN(1,2) RUN(2,1) RUN(3,0) RUN(3,2)
    __CPROVER_assume((bs == 1 && (nu == 0 || nu == 2)) || (bs == 2 && nu == 1) || (bs == 3 && (nu == 0 || nu == 2)));
    /* free list non-empty: pop */
    havoc_links();
    Slot *head = pick_slot(); __CPROVER_assume(head);
    sg->m_freeSlots = head; Slot *nx = head->m_next;
    Slot *r2 = Segment_newSlot(sg);
    __CPROVER_assert(r2 == head && sg->m_freeSlots == nx && head->m_next == (Slot *)0, "newSlot: pops the head of the free list and detaches it");
    CANARY();
}
