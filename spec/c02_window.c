/* C02 - the slot-reference window: Machine::Code::run's pre-check (src/Code.cpp) and the slotat() macro (src/inc/opcodes.h).
 * Together with unit c02_run_fsm (m_size <= MAX_SLOTS) they give: every slot reference an opcode makes reads inside
 * SlotMap::m_slot_map, and for references up to _max_ref the entry exists before the program is started.
 */
#include "types.h"
/*@unit {'name':'c02_code_run_precheck', 'props':['C02'], 'entry':'h_run', 'enforce':'Code_run', 'replace':['Machine_run'],
  'claims':'Machine::Code::run starts the interpreter only if the slot map holds more than _max_ref + context entries and the entry at _max_ref + context is non-NULL; otherwise it reports slot_offset_out_bounds and returns 1 without running'}@*/
/*@unit {'name':'c02_slotat', 'props':['C02'], 'entry':'h_slotat',
  'claims':'slotat(x): for any map cursor inside the slot map and any 8-bit reference x the macro reads only cells m_slot_map[0 .. m_size] (never outside the array) and yields NULL with status slot_offset_out_bounds when x leaves that window'}@*/
/*@include slots.tc@*/
typedef int32 stack_t; typedef void * instr;
typedef enum { finished = 0, stack_underflow, stack_not_empty, stack_overflow, slot_offset_out_bounds, died_early } status_t;
typedef struct Machine { SlotMap *_map; status_t _status; } Machine;
typedef struct Code { instr *_code; byte *_data; byte _max_ref; } Code;
/*@extract {'file':'src/inc/Rule.h', 'sig': r'size_t SlotMap::size\(\) const', 'emit':'static size_t SlotMap_size_0(const SlotMap *self)', 'self':['m_size']}@*/
/*@extract {'file':'src/inc/Rule.h', 'sig': r'short unsigned int SlotMap::context\(\) const', 'emit':'static unsigned short SlotMap_context_0(const SlotMap *self)', 'self':['m_precontext']}@*/
/*@extract {'file':'src/inc/Rule.h', 'sig': r'Slot \* \* SlotMap::end\(\)', 'emit':'static Slot **SlotMap_end_0(SlotMap *self)', 'self':['m_slot_map','m_size']}@*/
/*@extract {'file':'src/inc/Rule.h', 'sig': r'Slot \* const & SlotMap::operator\[\]\(int n\) const', 'emit':'static Slot *SlotMap_at(const SlotMap *self, int n)', 'self':['m_slot_map']}@*/
#define M_size_0 SlotMap_size_0
#define M_context_0 SlotMap_context_0
#define M_end_0 SlotMap_end_0
static SlotMap *Machine_slotMap_0(Machine *m) { return m->_map; }                /* Machine::slotMap() { return _map; } */
const Code *g_code; Machine *g_m;
stack_t Machine_run(Machine *m, const instr *program, const byte *data, slotref **map)
/* what the interpreter relies on: the window up to _max_ref is populated */
__CPROVER_requires(m == g_m && SlotMap_size_0(m->_map) > (size_t)(g_code->_max_ref + SlotMap_context_0(m->_map)) && SlotMap_at(m->_map, g_code->_max_ref + SlotMap_context_0(m->_map)) != (Slot *)0)
__CPROVER_assigns() __CPROVER_ensures(1);
#define assert(x) ((void)0)
int32 Code_run(const Code *self, Machine *m, slotref **map)
__CPROVER_requires(self == g_code && m == g_m && m->_map->m_size <= 64)
__CPROVER_assigns(m->_status)
__CPROVER_ensures((SlotMap_size_0(m->_map) <= (size_t)(self->_max_ref + SlotMap_context_0(m->_map)) || SlotMap_at(m->_map, self->_max_ref + SlotMap_context_0(m->_map)) == (Slot *)0)
                  ==> (__CPROVER_return_value == 1 && m->_status == slot_offset_out_bounds));
/*@extract {'file':'src/Code.cpp', 'sig': r'int32 Machine::Code::run\(Machine & m, slotref \* & map\) const', 'emit':'int32 Code_run(const Code *self, Machine *m, slotref **map)',
   'subs':[[r'm\.slotMap\(\)\[', 'SlotMap_at(Machine_slotMap_0(&m), ', 0], [r'(SlotMap_at\(Machine_slotMap_0\(&m\), [^\]]*)\]', r'\1)', 0], [r'm\.slotMap\(\)', '(*Machine_slotMap_0(&m))', 0],
           [r'm\._status', 'm._status', 0], [r'Machine::slot_offset_out_bounds', 'slot_offset_out_bounds', 0], [r'm\.run\(', 'Machine_run(&m, ', 0]],
   'methods':['size','context'], 'refs':['m','map'], 'self':['_max_ref','_code','_data']}@*/

/* slotat(x) as defined in opcodes.h, under the register names of the interpreters */
/*@extract {'file':'src/inc/opcodes.h', 'kind':'define', 'name':'slotat', 'subs':[[r'&smap\[-1\]', '(&smap.m_slot_map[0])', 0], [r'smap\.end\(\)', 'SlotMap_end_0(&smap)', 0], [r'Machine::', '', 0]]}@*/
unsigned nondet_unsigned(void);
void h_run(void)
{
    havoc_links();
    SlotMap *sm = malloc(sizeof(SlotMap)); Machine *m = malloc(sizeof(Machine)); Code *c = malloc(sizeof(Code));
    __CPROVER_assume(sm && m && c && sm->m_size <= 64);
    for (int i = 0; i < 65; ++i) sm->m_slot_map[i] = pick_slot();
    m->_map = sm; g_code = c; g_m = m;
    slotref *map = &sm->m_slot_map[1];
    int32 r = Code_run(c, m, &map);
    (void)r;
    CANARY();
}
void h_slotat(void)
{
    havoc_links();
    SlotMap *smp = malloc(sizeof(SlotMap)); __CPROVER_assume(smp && smp->m_size <= 64);          /* m_size <= MAX_SLOTS: unit c02_run_fsm */
    for (int i = 0; i < 65; ++i) smp->m_slot_map[i] = pick_slot();
#define smap (*smp)
    status_t status = finished;
    unsigned cur = nondet_unsigned(); __CPROVER_assume(cur <= smp->m_size + 1u);                  /* the cursor moves between &smap[-1] and end() (NEXT/INSERT/DELETE checks) */
    slotref *map = &smp->m_slot_map[cur];
    int x = (int8)nondet_unsigned();
    slotref s = slotat(x);
    long idx = (long)cur + x;
    __CPROVER_assert((idx >= 0 && idx <= (long)smp->m_size) ? (s == smp->m_slot_map[idx] && status == finished) : (s == (Slot *)0 && status == slot_offset_out_bounds), "slotat: the entry inside the window, NULL + slot_offset_out_bounds outside");
#undef smap
    CANARY();
}
