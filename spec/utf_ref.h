/* spec/utf_ref.h - reference decoders (the oracle), written from the Unicode Standard, not from the code:
 *   UTF-8 : Table 3-7 "Well-Formed UTF-8 Byte Sequences" (incl. the E0/ED/F0/F4 second-byte ranges)
 *   UTF-16: D91, UTF-32: D90.
 * Loop-free.  `avail` = number of code units readable at p (>= 1).
 * REF_LENIENT_SURROGATES: when defined, code points D800..DFFF encoded in UTF-8 / UTF-32 are treated as decodable
 * (used to keep the known finding D6 in its own unit); the strict unit leaves it undefined.
 */
#ifndef VERIF_UTF_REF_H
#define VERIF_UTF_REF_H
#ifndef VERIF_REPLAY
#include "types.h"
#endif

typedef struct { uint32 usv; int len; bool ok; } ref_t;

#define CONT(b) (((b) & 0xC0) == 0x80)

static ref_t ref8(const uint8 *p, size_t avail)
{
    ref_t r; r.usv = 0xFFFD; r.len = 1; r.ok = false;
    const uint8 b0 = p[0];
    if (b0 < 0x80) { r.usv = b0; r.ok = true; return r; }
    if (b0 >= 0xC2 && b0 <= 0xDF) {
        if (avail >= 2 && CONT(p[1])) { r.usv = ((uint32)(b0 & 0x1F) << 6) | (p[1] & 0x3F); r.len = 2; r.ok = true; }
        return r;
    }
    if (b0 >= 0xE0 && b0 <= 0xEF) {
        const uint8 lo = b0 == 0xE0 ? 0xA0 : 0x80;
#ifdef REF_LENIENT_SURROGATES
        const uint8 hi = 0xBF;
#else
        const uint8 hi = b0 == 0xED ? 0x9F : 0xBF;
#endif
        if (avail >= 3 && p[1] >= lo && p[1] <= hi && CONT(p[2])) {
            r.usv = ((uint32)(b0 & 0x0F) << 12) | ((uint32)(p[1] & 0x3F) << 6) | (p[2] & 0x3F); r.len = 3; r.ok = true;
        }
        return r;
    }
    if (b0 >= 0xF0 && b0 <= 0xF4) {
        const uint8 lo = b0 == 0xF0 ? 0x90 : 0x80;
        const uint8 hi = b0 == 0xF4 ? 0x8F : 0xBF;
        if (avail >= 4 && p[1] >= lo && p[1] <= hi && CONT(p[2]) && CONT(p[3])) {
            r.usv = ((uint32)(b0 & 0x07) << 18) | ((uint32)(p[1] & 0x3F) << 12) | ((uint32)(p[2] & 0x3F) << 6) | (p[3] & 0x3F);
            r.len = 4; r.ok = true;
        }
        return r;
    }
    return r;   /* 80..BF, C0, C1, F5..FF */
}

/* is p[0..] a (would-be) three byte encoding of a surrogate code point D800..DFFF: ED A0..BF 80..BF */
#define SURR8(p, avail) ((p)[0] == 0xED && (avail) >= 3 && (p)[1] >= 0xA0 && (p)[1] <= 0xBF && CONT((p)[2]))

static ref_t ref16(const uint16 *p, size_t avail)
{
    ref_t r; r.usv = 0xFFFD; r.len = 1; r.ok = false;
    const uint16 u = p[0];
    if (u < 0xD800 || u > 0xDFFF) { r.usv = u; r.ok = true; return r; }
    if (u <= 0xDBFF && avail >= 2 && p[1] >= 0xDC00 && p[1] <= 0xDFFF) {
        r.usv = 0x10000u + (((uint32)(u - 0xD800)) << 10) + (uint32)(p[1] - 0xDC00); r.len = 2; r.ok = true;
    }
    return r;
}

static ref_t ref32(const uint32 *p, size_t avail)
{
    ref_t r; r.usv = 0xFFFD; r.len = 1; r.ok = false;
    (void)avail;
    const uint32 u = p[0];
#ifdef REF_LENIENT_SURROGATES
    if (u < 0x110000u) { r.usv = u; r.ok = true; }
#else
    if (u < 0xD800u || (u > 0xDFFFu && u < 0x110000u)) { r.usv = u; r.ok = true; }
#endif
    return r;
}
#define SURR32(p) ((p)[0] >= 0xD800u && (p)[0] <= 0xDFFFu)

/* number of code units a UTF-8 lead byte announces (0 for a stray continuation byte) - by the bit pattern of the
   lead byte as in RFC 3629 section 3 (110xxxxx two, 1110xxxx three, 11110xxx.. four) */
#define ANNOUNCE8(b) ((b) < 0x80 ? 1 : (b) < 0xC0 ? 0 : (b) < 0xE0 ? 2 : (b) < 0xF0 ? 3 : 4)

/* TAIL8(p, avail): a decoder that reads continuation bytes one at a time and stops at the first byte that is not a
   continuation byte never needs more than `avail` bytes at p */
#define TAIL8(p, avail) ( ANNOUNCE8((p)[0]) <= (avail) \
    || ((avail) >= 2 && !CONT((p)[1])) || ((avail) >= 3 && !CONT((p)[2])) )
#define TAIL16(p, avail) ( (avail) >= 2 || !((p)[0] >= 0xD800 && (p)[0] <= 0xDBFF) )

#endif
