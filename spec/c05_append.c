/* C05 / C03 / C12 - Segment::appendSlot (src/Segment.cpp), the real body behind the ghost-log stub that the
 * process_utf_data units (c12_process*) assume: one call creates the char-info of character `id` and the slot that
 * stands for it, linked at the end of the stream.
 * Stubs: Segment::newSlot (fresh detached slot or NULL: unit c02_new_slot), GlyphCache::glyphSafe, glyph attribute
 * lookup (sparse::operator[]: unit c01_sparse_lookup), Slot::setGlyph (metrics, no links; writes glyph ids / advance only).
 */
#include "types.h"
/*@unit {'name':'c05_append_slot', 'props':['C05','C03','C12'], 'entry':'h_append', 'enforce':'Segment_appendSlot', 'no_checks':['--signed-overflow-check'],
  'assumptions':['attrs()[aPassBits+1] << 16 with a 16-bit attribute >= 0x8000 shifts into the sign bit of int: implementation-defined (two\'s complement) since C++14 / CWG1457, not flagged; the result is truncated to the 8-bit m_passBits anyway'],
  'claims':'Segment::appendSlot(id, cid, gid, feats, offset) with id inside the char-info array: writes only char-info id (character = cid, base = offset, feature index) and leaves every other char-info untouched; the new slot has before = after = original = id, no child, is linked after the old last slot (prev/next inverse), becomes last, and becomes first iff the stream was empty; when no slot can be allocated nothing at all is written'}@*/
/*@include slots.tc@*/
#define NCI 4
typedef struct SilfA { uint8 m_aBreak, m_aPassBits, m_numPasses; } SilfA;
static SilfA g_silf;
unsigned nondet_unsigned(void); bool nondet_bool(void);
Slot *g_new;                                   /* what newSlot hands out next (NULL: allocation failed / growth cap) */
static Slot *Segment_newSlot(Segment *s) { (void)s; return g_new; }
static const GlyphFace *Face_glyphSafe(const Face *f, int gid) { (void)f; (void)gid; return nondet_bool() ? (const GlyphFace *)0 : (const GlyphFace *)&g_silf; }
static uint16 GlyphFace_attr(const GlyphFace *g, unsigned idx) { (void)g; (void)idx; return (uint16)nondet_unsigned(); }
static void Slot_setGlyph_3(Slot *s, Segment *sg, uint16 gid, const GlyphFace *g) { (void)sg; (void)g; s->m_glyphid = gid; s->m_realglyphid = (uint16)nondet_unsigned(); s->m_bidiCls = -1; }
#define M_setGlyph_3 Slot_setGlyph_3
static void Slot_child_1(Slot *s, Slot *c) { s->m_child = c; }                   /* Slot::child(NULL) on a slot without children: stores NULL (general case: unit c04_child) */
#define M_child_1 Slot_child_1
uint8 g_passBits;
Segment *g_seg; CharInfo *g_ci; Slot *g_first0, *g_last0; int g_k;               /* g_k: ghost index for "every other char-info" */
CharInfo g_ci0[NCI]; Slot g_new0;
void Segment_appendSlot(Segment *self, int id, int cid, int gid, int iFeats, size_t coffset)
__CPROVER_requires(self == g_seg && self->m_charinfo == g_ci && id >= 0 && id < NCI)                 /* id < array size: precondition of the stub in c12_process* */
__CPROVER_requires(self->m_first == g_first0 && self->m_last == g_last0)
__CPROVER_assigns(g_ci[id], self->m_first, self->m_last, g_passBits; g_new != (Slot *)0: *g_new; g_last0 != (Slot *)0 && g_new != (Slot *)0: g_last0->m_next)
__CPROVER_ensures(g_new != (Slot *)0 ==> (g_ci[id].m_char == (uint32)cid && g_ci[id].m_base == coffset && g_ci[id].m_featureid == (uint8)iFeats))
__CPROVER_ensures(g_new != (Slot *)0 ==> (g_new->m_before == id && g_new->m_after == id && g_new->m_original == id && g_new->m_child == (Slot *)0))
__CPROVER_ensures(g_new != (Slot *)0 ==> (g_new->m_prev == g_last0 && self->m_last == g_new && (g_last0 == (Slot *)0 || g_last0->m_next == g_new)))
__CPROVER_ensures(g_new != (Slot *)0 ==> self->m_first == (g_first0 != (Slot *)0 ? g_first0 : g_new))
__CPROVER_ensures(g_new != (Slot *)0 ==> (g_new->m_next == g_new0.m_next && g_new->m_parent == g_new0.m_parent && g_new->m_sibling == g_new0.m_sibling))
__CPROVER_ensures(g_new == (Slot *)0 ==> (self->m_first == g_first0 && self->m_last == g_last0 && g_ci[id].m_char == g_ci0[id].m_char && g_ci[id].m_base == g_ci0[id].m_base));
/*@extract {'file':'src/Segment.cpp', 'sig': r'void Segment::appendSlot\(int id, int cid, int gid, int iFeats, size_t coffset\)', 'emit':'void Segment_appendSlot(Segment *self, int id, int cid, int gid, int iFeats, size_t coffset)',
   'subs':[[r'newSlot\(\)', 'Segment_newSlot(self)', 1], [r'm_charinfo\[id\]\.(\w+)\(', r'CharInfo_\1_1(&self->m_charinfo[id], ', 0],
           [r'm_face->glyphs\(\)\.glyphSafe\(gid\)', 'Face_glyphSafe(self->m_face, gid)', 0],
           [r'theGlyph->attrs\(\)\[([^\]]*\(\)(?: \+ 1)?)\]', r'GlyphFace_attr(theGlyph, \1)', 0],
           [r'm_silf->aBreak\(\)', 'g_silf.m_aBreak', 0], [r'm_silf->aPassBits\(\)', 'g_silf.m_aPassBits', 0], [r'm_silf->numPasses\(\)', 'g_silf.m_numPasses', 0],
           [r'm_passBits', 'g_passBits', 0], [r'setGlyph\(this,', 'setGlyph(self,', 0]],
   'methods':['child','setGlyph','originate','before','after','next','prev'], 'self':['m_last','m_first']}@*/

void h_append(void)
{
    Segment *sg = malloc(sizeof(Segment)); __CPROVER_assume(sg);
    CharInfo *ci = malloc(NCI * sizeof(CharInfo)); __CPROVER_assume(ci);           /* exactly NCI char-infos */
    sg->m_charinfo = ci; sg->m_silf = 0; sg->m_face = 0;
    havoc_links();
    Slot *last = nondet_bool() ? (Slot *)0 : &g_pool[0];
    sg->m_last = last; sg->m_first = last ? pick_slot() : (Slot *)0;
    __CPROVER_assume(!last || sg->m_first);                                      /* first is NULL iff last is NULL */
    Slot *fresh = nondet_bool() ? (Slot *)0 : &g_pool[1];                         /* a detached slot distinct from last */
    g_new = fresh; if (fresh) g_new0 = *fresh;
    g_seg = sg; g_ci = ci; g_first0 = sg->m_first; g_last0 = last;
    for (int i = 0; i < NCI; ++i) g_ci0[i] = ci[i];
    int id = nondet_int(); __CPROVER_assume(id >= 0 && id < NCI);
    g_k = nondet_int(); __CPROVER_assume(g_k >= 0 && g_k < NCI && g_k != id);
    Segment_appendSlot(sg, id, nondet_int(), nondet_int(), nondet_int(), (size_t)nondet_unsigned());
    __CPROVER_assert(ci[g_k].m_char == g_ci0[g_k].m_char && ci[g_k].m_base == g_ci0[g_k].m_base && ci[g_k].m_before == g_ci0[g_k].m_before && ci[g_k].m_after == g_ci0[g_k].m_after, "appendSlot leaves every other char-info alone");
    __CPROVER_assert(ci[id].m_before == g_ci0[id].m_before && ci[id].m_after == g_ci0[id].m_after, "appendSlot does not touch the char-info's slot range (associateChars sets it)");
    CANARY();
}
