/* C14 - compressed tables are transparent; the LZ4 decoder is exact and bounded.
 * Functions under contract (extracted from /repo on every run):
 *   unaligned_copy<8>, align, safe_copy, overrun_copy, fast_copy                 src/inc/Compression.h
 *   read_literal, read_sequence, lz4::decompress                                  src/Decompressor.cpp
 *   (Face::Table::decompress, the only caller, is in spec/c16_table.c: unit c16_decompress carries props C14 and C16)
 * Structure (how "exact and bounded" is decomposed):
 *   proof units (inputs symbolic, loops closed by loop contracts, buffers exact-size harness objects)
 *     c14_align, c14_read_literal, c14_read_sequence : what one sequence header means, as closed forms (all sizes)
 *     c14_lz4_safety : lz4::decompress - memory safety of every access (the preconditions of the primitives' contracts are
 *                      obligations at each call site), termination, result range, and the ghost copy protocol: the decoder
 *                      issues exactly the copy program of the parsed sequences (literals, then match_len bytes from
 *                      match_dist back, contiguous, final literals) and returns the number of bytes that program produces
 *   bounded units
 *     c14_safe_copy, c14_overrun_copy, c14_fast_copy : byte-serial semantics and exact frames of the copy primitives
 *                      (CBMC 6.11 cannot close a loop contract that stores symbolic bytes; FRAMEWORK.md item 5)
 *     c14_lz4_ref_sound, c14_lz4_ref_complete : whole blocks, everything inlined, against the reference decoder
 *                      spec/lz4_ref.h (cross-check of the decomposition; "every valid encoding decodes")
 *   parked (tier 'findings', fail on the unchanged tree): c14_lz4_ref_strict, c14_lz4_ref_complete_small
 *   Face::Table::decompress (scheme / 27-bit size / decoded length / version word): unit c16_decompress in spec/c16_table.c
 */
#include "types.h"
#include "lz4_ref.h"
#define assert(x) __CPROVER_assert((x), "source assert: " #x)

/*@unit {'name':'c14_align', 'props':['C14'], 'entry':'h_align', 'enforce':'align',
         'claims':'align(p) is the smallest multiple of the machine word size (8) that is >= p, for every p that does not wrap'}@*/
/*@unit {'name':'c14_read_literal', 'props':['C14','C01'], 'entry':'h_read_literal', 'enforce':'read_literal', 'min_loops':1, 'defines':['LOOP_CONTRACTS'],
         'replay':'c14_lz4', 'witness_defines':['WITNESS'], 'witness_vars':['w_n','w_at','w_l','w_b'],
         'claims':'read_literal: reads only [s,e), leaves s in [old s,e]; a nibble below 15 (or an exhausted input) is returned unchanged; otherwise the result is 15 + 255*(k-1) + last byte (mod 2^32) where the k>=1 bytes consumed are a run of 0xff closed by the first other byte or by the end of the input; terminates (decreases)'}@*/
/*@unit {'name':'c14_read_sequence', 'props':['C14','C01'], 'entry':'h_read_sequence', 'enforce':'read_sequence', 'kind':'bounded', 'loop_contracts':False, 'unwind':50,
         'bound':'input of at most 48 bytes (the only loop is read_literal\'s, proved for all sizes in c14_read_literal; read_sequence itself is loop-free)',
         'replay':'c14_lz4', 'witness_defines':['WITNESS'], 'witness_vars':['w_n','w_at','w_b'],
         'claims':'read_sequence (real read_literal inlined): reads only [src,end); the literal run starts inside the input; returns true exactly when the literals, the 2-byte offset and the match length bytes fit and leave MINCODA=6 bytes (token + LASTLITERALS) of input, then literal+literal_len+2 <= src <= end-6, match_dist is the little-endian 16-bit offset, match_len = nibble(+extension)+MINMATCH, literal_len = nibble(+extension); on false the literal run still starts inside [src,end]'}@*/
/*@unit {'name':'c14_safe_copy', 'props':['C14','C01'], 'loop_contracts':False, 'entry':'h_copy', 'enforce':'safe_copy', 'kind':'bounded', 'unwind':18, 'bound':'n <= 16 bytes in a 24-byte object',
         'claims':'safe_copy writes exactly [d,d+n), reads exactly [s,s+n), returns d+n, and has byte-serial (LZ77 overlapping) semantics: d[i] = s[i] evaluated after the bytes before it were stored'}@*/
/*@unit {'name':'c14_overrun_copy', 'props':['C14','C01'], 'loop_contracts':False, 'entry':'h_copy', 'enforce':'overrun_copy', 'kind':'bounded', 'unwind':7, 'bound':'n <= 40 bytes in a 48-byte object',
         'claims':'overrun_copy (n >= 1, source at least one word behind the destination or in another object) writes at most [d,d+align(n)), reads at most [s,s+align(n)), returns d+n and the first n bytes have byte-serial copy semantics'}@*/
/*@unit {'name':'c14_fast_copy', 'props':['C14','C01'], 'loop_contracts':False, 'entry':'h_copy', 'enforce':'fast_copy', 'kind':'bounded', 'unwind':10, 'bound':'n <= 40 bytes in a 48-byte object',
         'claims':'fast_copy (non-overlapping) writes exactly [d,d+n), reads exactly [s,s+n), returns d+n, d[i] = s[i]'}@*/
/*@unit {'name':'c14_lz4_safety', 'props':['C14','C01'], 'entry':'h_lz4', 'enforce':'lz4_decompress', 'replace':['read_sequence','overrun_copy','safe_copy','fast_copy'], 'min_loops':1, 'defines':['LOOP_CONTRACTS','COPY_STUBS_DO_NOT_WRITE','GHOST_PROTOCOL'], 'cost':100, 'timeout':1800,
         'replay':'c14_lz4', 'witness_defines':['WITNESS'], 'witness_vars':['w_in_n','w_out_n','w_b'],
         'claims':'lz4::decompress on arbitrary input bytes: every read lies in [in,in+in_size), every write in [out,out+out_size) (the bounds the copy primitives need - word overrun included - follow from the tests in the loop), the result is -1 or a length <= out_size, blocks that do not shrink the data are refused, and the main loop terminates (each sequence consumes input); ghost copy protocol: on success the decoder has issued exactly the copy program of the sequences read_sequence returned - per sequence the literal run, then match_len bytes from match_dist (1 <= match_dist <= bytes produced) back, each copy starting where the previous ended, then the final literals - and the result is the number of bytes produced'}@*/
/*@unit {'name':'c14_lz4_ref_sound', 'props':['C14'], 'entry':'h_lz4_ref', 'kind':'bounded', 'loop_contracts':False, 'object_bits':12, 'cost':80, 'timeout':3000,
         'unwind_quick':16, 'unwindset_quick':['lz4_decompress.0:4','fast_copy.0:3','overrun_copy.0:3','lz4_ref.4:7'], 'defines_quick':['REF_SOUND','REF_OUT=14','REF_IN=13'],
         'unwind_thorough':18, 'unwindset_thorough':['lz4_decompress.0:5','fast_copy.0:4','overrun_copy.0:4','lz4_ref.4:8'], 'defines_thorough':['REF_SOUND','REF_OUT=16'],
         'bound':'quick tier: in_size = 13, out_size = 14; thorough tier: 13 <= in_size < out_size <= 16; arbitrary input bytes',
         'replay':'c14_lz4', 'witness_defines':['WITNESS'], 'witness_vars':['w_in_n','w_out_n','w_b'],
         'claims':'whole blocks, all code inlined (no contracts), cross-check of the decomposition used by the proof units: when lz4::decompress returns n >= 0 the reference decoder (prefix mode) produces exactly n bytes and they are equal, byte for byte; no read outside the input, no write outside the announced output (exact-size buffers)'}@*/
/*@unit {'name':'c14_lz4_ref_complete', 'props':['C14'], 'entry':'h_lz4_ref', 'kind':'bounded', 'loop_contracts':False, 'object_bits':12, 'cost':80, 'timeout':3000,
         'unwind':18, 'unwindset':['lz4_decompress.0:5','fast_copy.0:4','overrun_copy.0:4','lz4_ref.4:8'], 'defines':['REF_COMPLETE','REF_OUT=16'],
         'bound':'13 <= in_size < out_size <= 16',
         'replay':'c14_lz4', 'witness_defines':['WITNESS'], 'witness_vars':['w_in_n','w_out_n','w_b'],
         'claims':'every valid encoding decodes: whenever the strict reference decoder accepts a block (>= 13 bytes, shorter than its plaintext, last 5 bytes literals) with exactly out_size bytes, lz4::decompress returns out_size and the same bytes'}@*/

/* Two strict readings of the property that do NOT hold on the unchanged tree (see the report / replay/c14_lz4.cpp).  They are
   parked in a tier of their own ('findings': never part of bin/check's quick or thorough run) until the findings are
   recorded in known-findings.txt; to run them add 'quick' to their tiers. */
/*@unit {'name':'c14_lz4_ref_strict', 'props':['C14'], 'tiers':['quick','thorough'], 'entry':'h_lz4_ref', 'kind':'bounded', 'loop_contracts':False, 'object_bits':12, 'timeout':3000,
         'unwind':16, 'unwindset':['lz4_decompress.0:4','fast_copy.0:3','overrun_copy.0:3','lz4_ref.4:7'], 'defines':['REF_STRICT','REF_OUT=14','REF_IN=13'],
         'bound':'in_size = 13, out_size = 14', 'replay':'c14_lz4', 'witness_defines':['WITNESS'], 'witness_vars':['w_in_n','w_out_n','w_b'],
         'claims':'STRICT reading (fails on the unchanged tree): whenever lz4::decompress succeeds the strict reference decoder (= LZ4_decompress_safe) accepts the block too.  Counterexample: bytes after the final literal run are ignored'}@*/
/*@unit {'name':'c14_lz4_ref_complete_small', 'props':['C14'], 'tiers':['quick','thorough'], 'entry':'h_lz4_ref', 'kind':'bounded', 'loop_contracts':False, 'object_bits':12, 'timeout':3000,
         'unwind':18, 'unwindset':['lz4_decompress.0:5','fast_copy.0:4','overrun_copy.0:4','lz4_ref.4:8'], 'defines':['REF_COMPLETE','REF_OUT=16','REF_MIN_IN=10'],
         'bound':'10 <= in_size < out_size <= 16', 'replay':'c14_lz4', 'witness_defines':['WITNESS'], 'witness_vars':['w_in_n','w_out_n','w_b'],
         'claims':'STRICT reading (fails on the unchanged tree): every valid shrinking encoding decodes, including blocks of 10..12 bytes.  Counterexample: MINSRCSIZE = 13 refuses them'}@*/

/* ------------------------------------------------------------------ types and constants of Compression.h */
typedef uint8_t u8; typedef uint16_t u16; typedef uint32_t u32; typedef uint64_t u64;
/*@extract {'file':'src/inc/Compression.h', 'kind':'range', 'start': r'ptrdiff_t const\s+MINMATCH', 'end': r';', 'end_inclusive': True,
            'subs':[[r'ptrdiff_t const', 'enum {', 0], [r';', '};', 0]]}@*/
/* the constants are ptrdiff_t in the source: give the enumerators' uses that type */
#define MINMATCH     ((ptrdiff_t)MINMATCH)
#define LASTLITERALS ((ptrdiff_t)LASTLITERALS)
#define MINCODA      ((ptrdiff_t)MINCODA)
#define MINSRCSIZE   ((ptrdiff_t)MINSRCSIZE)
#define WORD 8
#define ALIGN8(n) ((((size_t)(n)) + 7u) & ~(size_t)7u)

/* ------------------------------------------------------------------ ghost */
size_t g_k;                 /* ghost index */
const u8 *g_outp; long g_out_lo; /* same for the output buffer */
const u8 *g_in; long g_in_lo;  /* the input block and its first offset: no primitive may read the input object below it */
u8 g_old_sk;                /* the source byte at the ghost index before a copy: s[g_k] (set by the harness) */

/* ------------------------------------------------------------------ contracts */
size_t align(size_t p)
__CPROVER_requires(p <= SIZE_MAX - 7)
__CPROVER_assigns()
__CPROVER_ensures(__CPROVER_return_value >= p && __CPROVER_return_value - p < sizeof(unsigned long) && __CPROVER_return_value % sizeof(unsigned long) == 0)
__CPROVER_ensures(sizeof(unsigned long) == WORD);

#define S0 __CPROVER_old(*s)
#define CONSUMED ((size_t)(OFF(*s) - OFF(S0)))
#define READ_LITERAL_CONTRACT \
__CPROVER_requires(SAME(*s, e) && OFF(*s) >= 0 && OFF(*s) <= OFF(e) && __CPROVER_r_ok(*s, OFF(e) - OFF(*s))) \
__CPROVER_assigns(*s) \
/* bounds: s stays inside [old s, e] */ \
__CPROVER_ensures(SAME(*s, e) && OFF(*s) >= OFF(S0) && OFF(*s) <= OFF(e)) \
/* no extension */ \
__CPROVER_ensures((l != 15 || S0 == e) ==> (__CPROVER_return_value == l && *s == S0)) \
/* extension: a run of 0xff bytes closed by the first other byte or by the end of the input; all of them are added */ \
__CPROVER_ensures((l == 15 && S0 != e) ==> (CONSUMED >= 1 \
        && __CPROVER_return_value == (u32)(15u + 255u * (u32)(CONSUMED - 1) + S0[CONSUMED - 1]) \
        && (S0[CONSUMED - 1] != 0xff || *s == e) \
        && (g_k >= CONSUMED - 1 || S0[g_k] == 0xff)))
u32 read_literal(u8 const **s, u8 const *const e, u32 l) READ_LITERAL_CONTRACT;

#define IN_LO(p) (g_in == NULL || !SAME(p, g_in) || OFF(p) >= g_in_lo)     /* not below the input block */
#define OUT_LO(p) (g_outp == NULL || !SAME(p, g_outp) || OFF(p) >= g_out_lo) /* not below the output buffer */
#define SRC0 __CPROVER_old(*src)
#define TOKEN (SRC0[0])
bool read_sequence(u8 const **src, u8 const *const end, u8 const **literal, u32 *literal_len, u32 *match_len, u32 *match_dist)
__CPROVER_requires(SAME(*src, end) && OFF(*src) >= 0 && OFF(*src) < OFF(end) && __CPROVER_r_ok(*src, OFF(end) - OFF(*src)))
__CPROVER_requires(IN_LO(*src))
__CPROVER_requires(OFF(end) >= MINCODA)               /* end - MINCODA and end - 2 are pointers into the block (call site: in_size >= MINSRCSIZE) */
__CPROVER_assigns(*src, *literal, *literal_len, *match_len, *match_dist)
/* the literal run starts inside the input, after the token (needed by the caller on both outcomes) */
__CPROVER_ensures(SAME(*literal, end) && OFF(*literal) > OFF(SRC0) && OFF(*literal) <= OFF(end))
__CPROVER_ensures((TOKEN >> 4) != 15 ==> (*literal_len == (u32)(TOKEN >> 4) && OFF(*literal) == OFF(SRC0) + 1))
__CPROVER_ensures(((TOKEN >> 4) == 15 && OFF(SRC0) + 1 < OFF(end)) ==> OFF(*literal) >= OFF(SRC0) + 2)
__CPROVER_ensures(((TOKEN >> 4) == 15 && OFF(SRC0) + 1 < OFF(end)) ==> *literal_len == (u32)(15u + 255u * (u32)(OFF(*literal) - OFF(SRC0) - 2) + SRC0[OFF(*literal) - OFF(SRC0) - 1]))
/* true: literals, offset and match length fit and leave MINCODA bytes */
__CPROVER_ensures(__CPROVER_return_value ==> (SAME(*src, end) && OFF(*literal) + (long)*literal_len + 2 <= OFF(*src) && OFF(*src) <= OFF(end) - 6))
#define LIT_AT(i) (SRC0[OFF(*literal) - OFF(SRC0) + (size_t)(i)])          /* byte i of the literal run (indexed from the old src: see the note on `(*literal)[..]` in the report) */
__CPROVER_ensures(__CPROVER_return_value ==> *match_dist == ((u32)LIT_AT(*literal_len) | ((u32)LIT_AT((size_t)*literal_len + 1) << 8)))
__CPROVER_ensures((__CPROVER_return_value && (TOKEN & 15) != 15) ==> (*match_len == (u32)(TOKEN & 15) + 4 && OFF(*src) == OFF(*literal) + (long)*literal_len + 2))
__CPROVER_ensures((__CPROVER_return_value && (TOKEN & 15) == 15) ==> (OFF(*src) >= OFF(*literal) + (long)*literal_len + 3
        && *match_len == (u32)(15u + 255u * (u32)(OFF(*src) - OFF(*literal) - (long)*literal_len - 3) + SRC0[OFF(*src) - OFF(SRC0) - 1] + 4u)))
__CPROVER_ensures((__CPROVER_return_value && OFF(end) <= 0x1000000) ==> *match_len >= 4)
/* false only at the end of the stream: fewer than 2 bytes after the literals, or fewer than MINCODA after the match part */
__CPROVER_ensures(!__CPROVER_return_value ==> (OFF(*literal) + (long)*literal_len + 2 > OFF(end) || OFF(*src) > OFF(end) - 6));

/* byte-serial copy semantics for the ghost index g_k: the value of destination byte k after the call.  When source and
   destination are in the same object with the source `dist` bytes behind, byte k >= dist is a copy of destination byte
   k - dist (already final); otherwise it is the old source byte. */
#define SERIAL(d, s, k) ((SAME(d, s) && OFF(d) > OFF(s) && (long)(k) >= OFF(d) - OFF(s)) ? (d)[(long)(k) - (OFF(d) - OFF(s))] : g_old_sk)

/* Frame of the copy primitives.  In unit c14_lz4_safety (COPY_STUBS_DO_NOT_WRITE) the replaced calls do not havoc the
   output: CBMC 6.11 cannot close a loop contract whose body stores symbolic bytes through a havocked pointer (FRAMEWORK.md
   item 5).  This is sound for that unit because lz4::decompress never reads the output buffer itself - every load from
   and store to `out` happens inside the three primitives - so no value the havoc would change is observable there; the
   bounds of every store are still obligations (the w_ok/r_ok preconditions below, checked at each call site). */
#ifdef COPY_STUBS_DO_NOT_WRITE
#define COPY_FRAME(d, n)
#else
#define COPY_FRAME(d, n) __CPROVER_object_upto(d, n)
#endif
u8 *safe_copy(u8 *d, u8 const *s, size_t n)
__CPROVER_requires(__CPROVER_w_ok(d, n) && __CPROVER_r_ok(s, n) && IN_LO(s) && OUT_LO(s) && OUT_LO(d))
__CPROVER_requires(!SAME(d, s) || OFF(d) > OFF(s) || OFF(d) + (long)n <= OFF(s))       /* forward copy: the source is not ahead of the destination inside the range */
__CPROVER_assigns(COPY_FRAME(d, n))                                                     /* writes exactly [d, d+n) */
__CPROVER_ensures(__CPROVER_return_value == d + n)
__CPROVER_ensures(g_k >= n || d[g_k] == SERIAL(d, s, g_k));

u8 *overrun_copy(u8 *d, u8 const *s, size_t n)
__CPROVER_requires(n >= 1 && n <= 0x7fffffff)
__CPROVER_requires(__CPROVER_w_ok(d, ALIGN8(n)) && __CPROVER_r_ok(s, ALIGN8(n)) && IN_LO(s) && OUT_LO(s) && OUT_LO(d))       /* whole words are loaded and stored */
__CPROVER_requires(!SAME(d, s) || OFF(d) - OFF(s) >= WORD || OFF(s) - OFF(d) >= (long)ALIGN8(n))  /* a word never overlaps its own source */
__CPROVER_assigns(COPY_FRAME(d, ALIGN8(n)))                                             /* at most [d, d+align(n)) */
__CPROVER_ensures(__CPROVER_return_value == d + n)
__CPROVER_ensures(g_k >= n || d[g_k] == SERIAL(d, s, g_k));

u8 *fast_copy(u8 *d, u8 const *s, size_t n)
__CPROVER_requires(__CPROVER_w_ok(d, n) && __CPROVER_r_ok(s, n) && IN_LO(s) && OUT_LO(d))
__CPROVER_requires(!SAME(d, s))
__CPROVER_assigns(COPY_FRAME(d, n))
__CPROVER_ensures(__CPROVER_return_value == d + n)
__CPROVER_ensures(g_k >= n || d[g_k] == g_old_sk);

/* ghost state of the copy protocol (unit c14_lz4_safety, see below) */
#ifdef GHOST_PROTOCOL
int g_phase;            /* 0 parse next, 1 parsed (literals pending), 2 literals copied (match pending), 3 last sequence parsed, 4 done */
size_t g_op;            /* bytes produced so far */
const u8 *g_lit; u32 g_ll, g_ml, g_dist; size_t g_nseq;
size_t g_cap;            /* the announced output size (harness) */
#define LZ4_GHOST_FRAME , g_phase, g_op, g_lit, g_ll, g_ml, g_dist, g_nseq
#endif
/*@include lz4_contract.tc@*/

/* ------------------------------------------------------------------ extracted code */
/*@extract {'file':'src/inc/Compression.h', 'sig': r'void unaligned_copy\(void \* d, void const \* s\)', 'emit':'static void unaligned_copy_8(void * d, void const * s)',
            'subs':[[r'::memcpy', 'memcpy', 0], [r'\bS\b', '8', 0]]}@*/
/*@extract {'file':'src/inc/Compression.h', 'sig': r'size_t align\(size_t p\)', 'emit':'size_t align(size_t p)'}@*/
/*@extract {'file':'src/inc/Compression.h', 'sig': r'u8 \* safe_copy\(u8 \* d, u8 const \* s, size_t n\)', 'emit':'u8 *safe_copy(u8 *d, u8 const *s, size_t n)'}@*/
/*@extract {'file':'src/inc/Compression.h', 'sig': r'u8 \* overrun_copy\(u8 \* d, u8 const \* s, size_t n\)', 'emit':'u8 *overrun_copy(u8 *d, u8 const *s, size_t n)',
            'subs':[[r'unaligned_copy<WS>', 'unaligned_copy_8', 0]]}@*/
/*@extract {'file':'src/inc/Compression.h', 'sig': r'u8 \* fast_copy\(u8 \* d, u8 const \* s, size_t n\)', 'emit':'u8 *fast_copy(u8 *d, u8 const *s, size_t n)',
            'subs':[[r'unaligned_copy<WS>', 'unaligned_copy_8', 0]]}@*/

#ifdef LOOP_CONTRACTS
#define LC(x) x
#else
#define LC(x)
#endif
/*@extract {'file':'src/Decompressor.cpp', 'sig': r'u32 read_literal\(u8 const \* &s, u8 const \* const e, u32 l\)', 'emit':'u32 read_literal(u8 const **s, u8 const *const e, u32 l)',
   'refs':['s'],
   'loops':{1: """LC(__CPROVER_assigns(l, b, s)
                  __CPROVER_loop_invariant(SAME(s, e) && OFF(s) >= OFF(__CPROVER_loop_entry(s)) && OFF(s) < OFF(e))
                  __CPROVER_loop_invariant(l == (u32)(15u + 255u * (u32)(OFF(s) - OFF(__CPROVER_loop_entry(s)))))
                  __CPROVER_loop_invariant(g_k >= (size_t)(OFF(s) - OFF(__CPROVER_loop_entry(s))) || __CPROVER_loop_entry(s)[g_k] == 0xff)
                  __CPROVER_decreases(OFF(e) - OFF(s)))"""}}@*/

/*@extract {'file':'src/Decompressor.cpp', 'sig': r'bool read_sequence\(u8 const \* &src, u8 const \* const end, u8 const \* &literal,\s*u32 & literal_len, u32 & match_len, u32 & match_dist\)',
   'emit':'bool read_sequence(u8 const **src, u8 const *const end, u8 const **literal, u32 *literal_len, u32 *match_len, u32 *match_dist)',
   'subs':[[r'read_literal\(src, end,', 'read_literal(&src, end,', 0]],
   'refs':['src','literal','literal_len','match_len','match_dist']}@*/

/* ---- ghost protocol of unit c14_lz4_safety ("glue exactness"): lz4::decompress executes exactly the copy program of the
   parsed sequences.  The reference semantics of a block is the sequence of copy operations
        for each sequence:  out[op..op+ll) := literals ;  out[op..op+ml) := out[op-dist..)  (byte-serial, 1 <= dist <= op)
        last sequence:      out[op..op+ll) := literals
   each starting where the previous one ended.  The wrappers below (spec code) check every copy the decoder issues against
   the values read_sequence returned, in order; together with the contracts of read_sequence (what the values are, all
   sizes) and of the copy primitives (byte-serial semantics, bounded units) this is the decoder's exactness, decomposed. */
#ifdef GHOST_PROTOCOL
static bool read_sequence_g(u8 const **src, u8 const *const end, u8 const **literal, u32 *literal_len, u32 *match_len, u32 *match_dist)
{
    __CPROVER_assert(g_phase == 0, "protocol: a sequence is parsed only after the previous one was copied completely");
    bool r = read_sequence(src, end, literal, literal_len, match_len, match_dist);
    g_lit = *literal; g_ll = *literal_len; g_ml = *match_len; g_dist = *match_dist; g_phase = r ? 1 : 3;
    return r;
}
static void ghost_copy(u8 *d, u8 const *s, size_t n)
{
    __CPROVER_assert(SAME(d, g_outp) && OFF(d) - g_out_lo == (long)g_op, "protocol: every copy starts where the previous one ended (contiguous output from out[0])");
    if (g_phase == 1 && g_ll != 0) {
        __CPROVER_assert(s == g_lit && n == g_ll, "protocol: literal copy = exactly the parsed literal run");
        g_phase = 2;
    } else if (g_phase == 1 || g_phase == 2) {
        /* informational canary on the deepest in-loop path (the loop body ends in assume(false) under the loop contract, so
           no flag can be carried to the harness's own canary): a literal copy followed by the match copy */
        if (g_phase == 2) CANARY();
        __CPROVER_assert(SAME(s, d) && g_dist >= 1 && (size_t)g_dist <= g_op && OFF(d) - OFF(s) == (long)g_dist && n == g_ml,
                         "protocol: match copy = match_len bytes from match_dist back, inside the data produced so far");
        __CPROVER_assert(g_op <= g_cap && n <= g_cap - g_op && g_cap - g_op - n >= 5,
                         "protocol: no match ends closer than LASTLITERALS = 5 bytes to the end of the announced output (end-of-block rule of the format)");
        g_phase = 0; g_nseq++;
    } else if (g_phase == 3) {
        __CPROVER_assert(s == g_lit && n == g_ll, "protocol: final literals = exactly the parsed literal run");
        g_phase = 4;
    } else
        __CPROVER_assert(0, "protocol: copy issued outside a sequence");
    g_op += n;
}
static u8 *overrun_copy_g(u8 *d, u8 const *s, size_t n) { ghost_copy(d, s, n); return overrun_copy(d, s, n); }
static u8 *safe_copy_g(u8 *d, u8 const *s, size_t n) { ghost_copy(d, s, n); return safe_copy(d, s, n); }
static u8 *fast_copy_g(u8 *d, u8 const *s, size_t n) { ghost_copy(d, s, n); return fast_copy(d, s, n); }
#define GP(...) __VA_ARGS__
#else
#define read_sequence_g read_sequence
#define overrun_copy_g overrun_copy
#define safe_copy_g safe_copy
#define fast_copy_g fast_copy
#define GP(...)
#endif

/*@extract {'file':'src/Decompressor.cpp', 'sig': r'int lz4::decompress\(void const \*in, size_t in_size, void \*out, size_t out_size\)',
   'emit':'int lz4_decompress(void const *in, size_t in_size, void *out, size_t out_size)', 'casts': True,
   'subs':[[r'read_sequence\(src, src_end, literal, literal_len, match_len,\s*match_dist\)', 'read_sequence_g(&src, src_end, &literal, &literal_len, &match_len, &match_dist)', 0],
           [r'\boverrun_copy\(', 'overrun_copy_g(', 0], [r'\bsafe_copy\(', 'safe_copy_g(', 0], [r'\bfast_copy\(', 'fast_copy_g(', 0]],
   'inserts':[[r'if \(out_size <= in_size', 'const size_t out_size0 = out_size; (void)out_size0;', 'before']],
   'loops':{1: """LC(__CPROVER_assigns(src, literal, literal_len, match_len, match_dist, dst, out_size GP(, g_phase, g_op, g_lit, g_ll, g_ml, g_dist, g_nseq))
                  __CPROVER_loop_invariant(SAME(src, in) && OFF(src) >= OFF(in) && OFF(src) < OFF(src_end))
                  __CPROVER_loop_invariant(SAME(dst, out) && out_size <= out_size0 && OFF(dst) - OFF(out) == (long)(out_size0 - out_size))
                  GP(__CPROVER_loop_invariant(g_phase == 0 && g_op == out_size0 - out_size))
                  __CPROVER_decreases(OFF(src_end) - OFF(src)))"""}}@*/

/* ------------------------------------------------------------------ harnesses */
size_t nondet_size_t(void); unsigned nondet_unsigned(void); unsigned char nondet_uchar(void); bool nondet_bool(void);

#ifdef UNIT_c14_align
void h_align(void)
{
    size_t r = align(nondet_size_t());
    (void)r;
    CANARY();
}
#endif

#ifdef WITNESS
#define WB 24
#define FILL(buf, n) do { for (int i_ = 0; i_ < WB; ++i_) if ((size_t)i_ < (n)) (buf)[i_] = w_b[i_]; } while (0)
#endif

#ifdef UNIT_c14_read_literal
void h_read_literal(void)
{
    size_t w_n = nondet_size_t(), w_at = nondet_size_t(); u32 w_l = nondet_unsigned();
#ifdef WITNESS
    __CPROVER_assume(w_n <= WB);
#else
    __CPROVER_assume(w_n <= MAXN);
#endif
    __CPROVER_assume(w_at <= w_n && w_l <= 15);
    u8 *buf = malloc(w_n); __CPROVER_assume(buf != NULL);        /* exactly the input: e is the end of the object */
#ifdef WITNESS
    u8 w_b[WB]; FILL(buf, w_n);
#endif
    u8 const **ps = malloc(sizeof(*ps)); __CPROVER_assume(ps != NULL);
    *ps = buf + w_at;
    g_k = nondet_size_t();
    u32 r = read_literal(ps, buf + w_n, w_l);
    (void)r;
    CANARY();
}
#endif

#ifdef UNIT_c14_read_sequence
void h_read_sequence(void)
{
    size_t w_n = nondet_size_t(), w_at = nondet_size_t();
#ifdef WITNESS
    __CPROVER_assume(w_n <= WB);
#else
    __CPROVER_assume(w_n <= 48);
#endif
    __CPROVER_assume(w_at < w_n && w_n >= 6);
    /* constant-size object; the input is its LAST w_n bytes, so a read past `end` leaves the object */
    u8 *obj = malloc(48); __CPROVER_assume(obj != NULL);
    u8 *buf = obj + (48 - w_n);
#ifdef WITNESS
    u8 w_b[WB]; FILL(buf, w_n);
#endif
    struct { u8 const *src, *literal; u32 literal_len, match_len, match_dist; } *v = malloc(sizeof(*v)); __CPROVER_assume(v != NULL);
    v->src = buf + w_at; v->literal = NULL;
    g_k = nondet_size_t(); g_in = buf; g_in_lo = (long)(48 - w_n);
    bool r = read_sequence(&v->src, buf + w_n, &v->literal, &v->literal_len, &v->match_len, &v->match_dist);
    if (r && v->literal_len >= 15 && v->match_len >= 19) CANARY();     /* vacuity guard on the deepest path: a complete sequence with both length extensions */
}
#endif

#if defined(UNIT_c14_safe_copy) || defined(UNIT_c14_overrun_copy) || defined(UNIT_c14_fast_copy)
/* one harness for the three copy primitives: the destination is a sub-range of an exact-size object; the source is either
   earlier in the same object (LZ77 match) or in a separate exact-size object (literals) */
#ifdef UNIT_c14_safe_copy
#define NMAX 16
#define COPY safe_copy
#define SPAN(n) (n)
#elif defined(UNIT_c14_overrun_copy)
#define NMAX 40
#define COPY overrun_copy
#define SPAN(n) ALIGN8(n)
#else
#define NMAX 40
#define COPY fast_copy
#define SPAN(n) (n)
#endif
void h_copy(void)
{
    /* fixed-size objects; the ranges handed to the primitive end exactly at the end of their object for suitable pos/n, so
       any access beyond the contract's ranges leaves the object */
    size_t n = nondet_size_t(), pos = nondet_size_t(), dist = nondet_size_t();
    const size_t total = NMAX + 8;
    bool same = nondet_bool();
    __CPROVER_assume(n <= NMAX && pos <= total && SPAN(n) <= total - pos);
#ifdef UNIT_c14_overrun_copy
    __CPROVER_assume(n >= 1);
#endif
#ifdef UNIT_c14_fast_copy
    same = 0;
#endif
    u8 *out = malloc(total); __CPROVER_assume(out != NULL);
    u8 *in = malloc(total); __CPROVER_assume(in != NULL);
    const u8 *s;
    if (same) {
        __CPROVER_assume(dist >= 1 && dist <= pos);
#ifdef UNIT_c14_overrun_copy
        __CPROVER_assume(dist >= WORD);
#endif
        s = out + pos - dist;
    } else s = in + (total - SPAN(n));                                /* the source range ends at the end of its object */
    g_k = nondet_size_t();
    g_old_sk = g_k < n ? s[g_k] : 0;
    u8 *r = COPY(out + pos, s, n);
    (void)r;
    CANARY();
}
#endif

#ifdef UNIT_c14_lz4_safety
/* The block is the LAST in_size bytes of its object (any read past the block leaves the object).  It is preceded by 4 GiB
   of padding: the decoder forms `src_end - literal_len` (literal_len < 2^32) and compares it; CBMC orders pointers by
   unsigned offset, so that pointer must not leave the object downwards for the comparison to have its flat-address-space
   meaning.  Reads below the block are excluded by the ghost lower limit g_in_lo in the stubs' preconditions. */
#define PAD 0x100000000ul
#define PADO 0x10000ul      /* dst - match_dist (match_dist < 2^16) stays inside the object; stores/loads below `out` are excluded by g_out_lo */
void h_lz4(void)
{
    size_t w_in_n = nondet_size_t(), w_out_n = nondet_size_t();
#ifdef WITNESS
    __CPROVER_assume(w_in_n <= WB && w_out_n <= 2 * WB);
#else
    __CPROVER_assume(w_in_n <= MAXN && w_out_n <= MAXN);
#endif
    u8 *buf = malloc(PAD + w_in_n); __CPROVER_assume(buf != NULL);         /* the block ends exactly at the end of the object */
    u8 *obuf = malloc(PADO + w_out_n); __CPROVER_assume(obuf != NULL);     /* the announced output is the last w_out_n bytes of its object */
    u8 *out = obuf + PADO;
#ifdef WITNESS
    u8 w_b[WB]; FILL(buf + PAD, w_in_n);
#endif
    g_in = buf + PAD; g_in_lo = (long)PAD; g_outp = out; g_out_lo = (long)PADO;
    g_phase = 0; g_op = 0; g_nseq = 0; g_cap = w_out_n;
    int r = lz4_decompress(buf + PAD, w_in_n, out, w_out_n);
    if (r >= 0) __CPROVER_assert(g_phase == 4 && (size_t)r == g_op, "success: the block was decoded up to and including the final literals and the result is the number of bytes the copy program produced");
    if (r > 0) CANARY();     /* vacuity guard: the success exit is reachable.  (The second canary, inside ghost_copy, shows that the in-loop path literal copy + match copy is reachable; the driver only evaluates the harness's own canary, the other one is informational: it must be reported FAILURE = reachable in cbmc.json.) */
}
#endif

#if defined(REF_SOUND) || defined(REF_COMPLETE) || defined(REF_STRICT)
#ifndef REF_OUT
#define REF_OUT 24
#endif
#define RPAD 32
void h_lz4_ref(void)
{
    size_t w_in_n = nondet_size_t(), w_out_n = nondet_size_t();
#ifndef REF_MIN_IN
#define REF_MIN_IN 13
#endif
    __CPROVER_assume(w_out_n <= REF_OUT && w_in_n >= REF_MIN_IN && w_in_n < w_out_n);
#ifdef REF_IN
    __CPROVER_assume(w_in_n == REF_IN && w_out_n == REF_OUT);
#endif
    /* Constant-size objects (CBMC then needs no array theory); block and output are the LAST w_in_n / w_out_n bytes of
       their objects, so any access past the block or past the announced output leaves the object.  RPAD bytes precede the
       block so that `src_end - literal_len` keeps its flat-address-space meaning for every literal_len <= RPAD + in_size;
       larger values are > out_size and are refused by the next test whatever that comparison yields. */
    u8 *ibuf = malloc(RPAD + REF_OUT); __CPROVER_assume(ibuf != NULL);
    u8 *obuf = malloc(REF_OUT); __CPROVER_assume(obuf != NULL);
    u8 *in = ibuf + (RPAD + REF_OUT - w_in_n), *out = obuf + (REF_OUT - w_out_n);
    u8 ref[REF_OUT];
#ifdef WITNESS
    u8 w_b[WB]; FILL(in, w_in_n);
#endif
    for (size_t i = 0; i < REF_OUT; ++i) ref[i] = 0;
#ifdef REF_STRICT
    lz4ref_result rr = lz4_ref(in, w_in_n, ref, w_out_n, LZ4REF_STRICT);
    int r = lz4_decompress(in, w_in_n, out, w_out_n);
    if (r >= 0) __CPROVER_assert(rr.n == (long)r, "decoder succeeded: the strict reference decoder accepts the block with the same length");
#elif defined(REF_SOUND)
    lz4ref_result rr = lz4_ref(in, w_in_n, ref, w_out_n, LZ4REF_LENIENT);
    int r = lz4_decompress(in, w_in_n, out, w_out_n);
    if (r >= 0) {
        __CPROVER_assert(rr.n == (long)r, "decoder succeeded: the reference decoder (prefix mode) produces the same number of bytes");
        for (size_t i = 0; i < REF_OUT; ++i)
            if (i < (size_t)r) __CPROVER_assert(out[i] == ref[i], "decoder succeeded: every byte equals the reference decoder's byte");
    }
#else
    lz4ref_result rr = lz4_ref(in, w_in_n, ref, w_out_n, LZ4REF_STRICT);
    __CPROVER_assume(rr.n == (long)w_out_n && rr.last_ll >= 5);      /* a valid encoding of exactly w_out_n bytes, last 5 bytes literals */
    int r = lz4_decompress(in, w_in_n, out, w_out_n);
    __CPROVER_assert(r == (int)w_out_n, "valid encoding: the decoder returns the plaintext length");
    for (size_t i = 0; i < REF_OUT; ++i)
        if (i < w_out_n) __CPROVER_assert(out[i] == ref[i], "valid encoding: every byte equals the reference decoder's byte");
#endif
    CANARY();
}
#endif
