/* C18 / C01 - the Feat and Sill table parsers of src/FeatureMap.cpp beyond what c18_features.c and c16_owners.c already prove.
 *
 * Already there (not repeated): bit allocator, applyValToFeature, getFeatureVal, readFeatureSettings, cloneFeatures, operator==, the
 * bits guard (c18_features.c); readFeats + ~FeatureMap as a whole, BOUNDED to a 75-byte table / 3 features / 3 settings (c16_owners.c).
 * Added here, all UNBOUNDED in the table (exact-size buffers with arbitrary bytes; harness bounds 1 MiB Sill / 16 MiB Feat only):
 *   c18_find        FeatureMap::findFeatureRef               whole function, loop contract
 *   c18_cmp_named   cmpNameAndFeatures (+ NameAndFeatureRef::operator<)
 *   c18_named_from  NameAndFeatureRef(FeatureRef const&) (+ FeatureRef::getId)
 *   c18_readsill    SillMap::readSill, whole function: header tests, new LangFeaturePair[], outer loop (loop contract); the statements of one
 *                   language entry are cut out (declared cut, same anchors as the next unit) and replaced by the contract readSill_entry
 *   c18_sill_entry  the cut statements = body of the outer loop of readSill (entry record, offset test, new Features, settings loop under a
 *                   loop contract, language-id feature, the two stores into m_langFeats[i])
 *   c18_feathead    FeatureMap::readFeats from its first statement up to (not including) `m_feats = new FeatureRef[...]`
 *   c18_featrec     FeatureMap::readFeats, body of the record loop (bits guard, version-dependent record layout, settings offset/size guard,
 *                   gralloc<FeatureSetting>, readFeatureSettings call, default value, FeatureRef constructor call, every refusal path)
 * Not covered here: the statements of readFeats between the two pieces (new FeatureRef[], gralloc<uint16>, the for-header of the record loop) and
 * after the record loop (Features(bits/32+1), new NameAndFeatureRef[], the defaults loop, qsort) - these are run by the bounded unit c16_readfeats;
 * SillMap::readFace (three lines); ~SillMap / ~LangFeaturePair (the ownership clause (6) of c18_readsill states what they rely on).
 *
 * Functional clause of C18 ("the font's defaults overridden by the Sill entry of that language"), as the code documents it and as stated in
 * clause (5) of SillMap_readSill / LOG_DONE: entry i = (tag of record i, fresh copy of the defaults) and the copy receives, in table order, for each
 * listed setting whose feature id is found by findFeatureRef, applyValToFeature(ref, value) - settings naming an unknown feature are skipped,
 * out-of-range values are rejected inside applyValToFeature (c18_apply: fails and changes nothing) and the result is ignored - and finally, if the
 * font has a feature with id 1, that feature := the language tag ("the language id feature which is always feature id 1", again range-checked).
 * Entries are selected by exact tag in cloneFeatures (c18_clone); zero-/space-padding is the API layer's zeropad (c20_zeropad).
 */
#include "types.h"
#define assert(x) __CPROVER_assert((x), "source assert: " #x)

/*@unit {'name':'c18_find', 'props':['C18','C01'], 'entry':'h_find', 'enforce':'FeatureMap_findFeatureRef', 'min_loops':1, 'defines':['FIND'],
  'claims':'FeatureMap::findFeatureRef(name) returns the m_pFRef of the FIRST entry of m_pNamedFeats[0, m_numFeats) whose m_name equals name, NULL when no entry carries the name; reads only inside the array; assigns nothing'}@*/
/*@unit {'name':'c18_cmp_named', 'props':['C18'], 'entry':'h_cmp', 'enforce':'cmpNameAndFeatures', 'defines':['FIND'], 'unwind':4,
  'claims':'cmpNameAndFeatures(a, b) is -1 / 0 / +1 exactly as a.m_name is below / equal to / above b.m_name (sign contract of a qsort comparator: antisymmetric, transitive, 0 only for equal names); reads the two elements only'}@*/
/*@unit {'name':'c18_named_from', 'props':['C18'], 'entry':'h_from', 'enforce':'NameAndFeatureRef_from', 'defines':['FIND'], 'unwind':4,
  'claims':'NameAndFeatureRef(FeatureRef const &p) stores p.getId() and &p: every entry of m_pNamedFeats built by readFeats satisfies m_name == m_pFRef->m_id (qsort moves whole entries), so the ref findFeatureRef(name) returns has id == name'}@*/

/*@unit {'name':'c18_readsill', 'props':['C18','C01','C16'], 'entry':'h_readsill', 'enforce':'SillMap_readSill', 'replace':['readSill_entry'], 'min_loops':1, 'defines':['SILL=1'], 'timeout':400,
  'assumptions':['Face::Table constructor: hands out the client buffer and its exact length (contract: unit c16_ctor)', 'new LangFeaturePair[n]: NULL or an exact-size array of n elements; the default constructor (m_lang 0, m_pFeatures NULL) is applied at the ghost index, other elements arbitrary. A NULL result models a build with -fcheck-new (operator new[] of CLASS_NEW_DELETE is not noexcept: with standard semantics a failed allocation is undefined behaviour before readSill can test it)', 'readSill_entry contract (proved by unit c18_sill_entry on the cut statements)', 'the table values the contract speaks about (version, count, entry g_i, setting g_j) are read once by the harness with the layout of the format document'],
  'claims':'SillMap::readSill (whole function; Sill table of any length up to the harness bound with arbitrary bytes, or absent; the statements of one language entry replaced by the contract proved in c18_sill_entry): every read inside the table; no table => accepted and empty; accepted => version 1.0, 12-byte header, and if languages are kept the 8-byte entry array and every setting list lie inside the table; languages are dropped only if the face has no features or the array cannot be allocated; refused only for a short table, wrong version, entry array or setting list outside the table, or a failed allocation; m_langFeats is allocated at most once with exactly numLanguages elements and indexed only below that; accepted => for every entry i: m_lang is the tag of record i, m_pFeatures a fresh copy of the defaults that received exactly the listed settings in table order and then the language id on feature 1; on every path (also refusal half-way) each vector created for entry i is stored in entry i and untouched entries hold NULL (what ~SillMap needs to free everything exactly once)'}@*/
/*@unit {'name':'c18_sill_entry', 'props':['C18','C01','C16'], 'entry':'h_entry', 'enforce':'readSill_entry', 'min_loops':1, 'defines':['SILL=1'], 'timeout':900,
  'assumptions':['findFeatureRef: arbitrary result (contract: c18_find); applyValToFeature: arbitrary result, its writes (the destination vector and the word buffer it owns, frame proved in c18_apply) are not modelled because readSill never reads the vector again; new Features(defaults): NULL (-fcheck-new) or a fresh opaque object (Vector copy constructor not modelled)', 'header facts assumed by the harness: table >= 12 + 8*numLanguages bytes, array of exactly numLanguages pairs (established in c18_readsill: preconditions of the call)'],
  'claims':"one language entry of SillMap::readSill (body of the outer loop; any entry index below numLanguages, entry array inside the table as the header test guarantees): reads exactly the 8-byte record and, when the list is accepted, 8 bytes per setting, all inside the table (a list with offset + 8*numSettings beyond the table is refused before anything is created; an empty list is never read); the cursor advances by exactly 8; the stores go to m_langFeats[i] only; for every setting j (ghost index, loop contract): findFeatureRef is asked for the feature id of setting j, and exactly when it returns a feature that feature's applyValToFeature is called once with the 16-bit value of setting j on this entry's own fresh copy of the defaults, before the next lookup; after the last setting findFeatureRef(1) and, if found, applyValToFeature(language tag); number of applies == number of successful lookups; refusal leaves m_pFeatures NULL and creates nothing that is not stored"}@*/

/*@unit {'name':'c18_feathead', 'props':['C18','C01'], 'entry':'h_feathead', 'enforce':'readFeats_head', 'defines':['FEATREC=1'], 'unwind':4, 'timeout':400,
  'assumptions':['Face::Table constructor: hands out the client buffer and its exact length (contract: unit c16_ctor)', 'p + numFeats*16 > feat_end is evaluated in a flat address space when p + numFeats*16 lies beyond the table (FRAMEWORK item 8)'],
  'claims':'FeatureMap::readFeats up to the allocations (Feat table of any length up to the harness bound, arbitrary bytes, or absent): reads only the 12-byte header of a table that has one; goes on to the record loop only with version >= 1.0, numFeats != 0 as in the header, 12 + 16*numFeats <= table length and the cursor at offset 12 (the precondition of c18_featrec); accepts at once exactly for no table / zero features; refuses exactly a table shorter than 12 bytes, a version below 1.0 or a record array that does not fit, and then resets m_numFeats to 0'}@*/
/*@unit {'name':'c18_featrec', 'props':['C18','C01'], 'entry':'h_featrec', 'enforce':'readFeats_record', 'defines':['FEATREC=1'], 'unwind':4, 'timeout':400,
  'assumptions':['gralloc<FeatureSetting>(n): NULL or exactly n elements; readFeatureSettings: model that asserts its region precondition (body: unit c18_settings), returns an arbitrary maximum and writes element 0; FeatureRef constructor: model that asserts its preconditions (body: unit c18_ctor), logs its arguments, advances the running offset by at most 63 and takes the settings array', 'facts in front of the loop assumed by the harness: version >= 1.0, 12 + 16*numFeats <= table length (proved by c18_feathead), m_feats and defVals have exactly numFeats elements', 'the record fields the contract speaks about are read once by the harness with the layout of the Feat table format'],
  'claims':'one feature record of FeatureMap::readFeats (body of the record loop; any record index below numFeats, any version >= 1.0, table >= 12 + 16*numFeats bytes): reads exactly the 12-byte (version 1) / 16-byte (version >= 2) record inside the table and leaves the cursor on the next record; the feature is constructed exactly once, at m_feats + i, from the fields of record i in the version-dependent layout (id 16/32 bit, nSettings, reserved word skipped only for version >= 2, settings offset, flags, label), with a running bit offset <= 8128 (precondition of c18_ctor); readFeatureSettings is called only with a region [settingsOffset, settingsOffset + 4*nSettings) inside the table and an array of exactly nSettings >= 1 elements, its result is the feature maximum and the first setting value the default; no settings => maximum 0xffffffff, default 0, no array; defVals[i] is the only scratch cell written; refusal only for bit offset > 8128, settings outside the table or a failed allocation, and then defVals is freed exactly once, nothing else is freed, no feature was constructed and no settings array is left behind'}@*/

bool nondet_bool(void); size_t nondet_size_t(void); unsigned nondet_unsigned(void); uint32 nondet_u32(void); uint16 nondet_u16(void);

/* ------------------------------------------------------------------ shim structs: the real data members, copied from the headers */
typedef struct FeatureMap FeatureMap;
typedef struct Face Face;
typedef uint32 chunk_t;
typedef uint16 flags_t;                                   /* enum flags_t : uint16 */
#define flags_t(x) ((flags_t)(x))
typedef struct FeatureSetting {
/*@extract {'kind':'members', 'file':'src/inc/FeatureMap.h', 'scope': r'class FeatureSetting\s*\{', 'names':['m_label','m_value']}@*/
} FeatureSetting;
typedef struct FeatureRef {
/*@extract {'kind':'members', 'file':'src/inc/FeatureMap.h', 'scope': r'class FeatureRef\s*\{', 'names':['m_face','m_nameValues','m_mask','m_max','m_id','m_nameid','m_numSet','m_flags','m_bits','m_index']}@*/
} FeatureRef;
typedef struct NameAndFeatureRef {
/*@extract {'kind':'members', 'file':'src/inc/FeatureMap.h', 'scope': r'class NameAndFeatureRef\s*\{', 'names':['m_name','m_pFRef']}@*/
} NameAndFeatureRef;
typedef struct Features {                                 /* class FeatureVal : public Vector<uint32> { const FeatureMap* m_pMap; } */
/*@extract {'kind':'members', 'file':'src/inc/List.h', 'scope': r'class Vector\s*\{', 'names':['m_first','m_last','m_end'], 'subs':[[r'\bT\b', 'uint32']]}@*/
/*@extract {'kind':'members', 'file':'src/inc/FeatureVal.h', 'scope': r'class FeatureVal : public Vector<uint32>\s*\{', 'names':['m_pMap']}@*/
} Features;
typedef Features FeatureVal;
struct FeatureMap {
/*@extract {'kind':'members', 'file':'src/inc/FeatureMap.h', 'scope': r'class FeatureMap\s*\{', 'names':['m_numFeats','m_feats','m_pNamedFeats','m_defaultFeatures']}@*/
};
typedef struct LangFeaturePair {
/*@extract {'kind':'members', 'file':'src/inc/FeatureMap.h', 'scope': r'class LangFeaturePair\s*\{', 'names':['m_lang','m_pFeatures']}@*/
} LangFeaturePair;
typedef struct SillMap {
/*@extract {'kind':'members', 'file':'src/inc/FeatureMap.h', 'scope': r'class SillMap\s*\{', 'names':['m_FeatureMap','m_langFeats','m_numLanguages']}@*/
} SillMap;
struct Face { SillMap m_Sill; };
typedef struct Table { const Face *_f; const byte *_p; size_t _sz; bool _compressed; } Table;     /* Face::Table: the fields the parsers use */
#define FACE_FEATUREMAP(f) (&(f)->m_Sill.m_FeatureMap)   /* m_face->theSill().theFeatureMap(): two trivial accessors */

/* ------------------------------------------------------------------ ghost state */
size_t g_j;                         /* ghost index: an arbitrary element / record */
size_t g_kk;                        /* ghost witness: where a scan stopped */

/* C++ defines p < q for two null pointers (false) and p + 0 for the null pointer; C, and the verifier, do not (FRAMEWORK.md item 18):
   a FeatureMap without features has m_pNamedFeats == NULL and m_numFeats == 0 */
#define PLT(a, b) ((a) != (b) && (a) < (b))
#ifdef FIND
/* ================================================================== findFeatureRef, cmpNameAndFeatures, NameAndFeatureRef(FeatureRef const&) */
const FeatureMap *g_fm; const NameAndFeatureRef *g_named; size_t g_n;
#define NM(k) (g_named[k].m_name)
#define HIT(name) (g_kk < g_n && NM(g_kk) == (name))
const FeatureRef *FeatureMap_findFeatureRef(const FeatureMap *self, uint32 name)
__CPROVER_requires(self == g_fm && self->m_pNamedFeats == g_named && self->m_numFeats == g_n && g_kk == SIZE_MAX)
__CPROVER_requires(g_n == 0 || (OFF(g_named) == 0 && OBJSZ(g_named) == g_n * sizeof(NameAndFeatureRef)))
__CPROVER_assigns(g_kk)
/* a hit: the entry the scan stopped at carries the name, its ref is returned, and no earlier entry carries the name (ghost index g_j) */
__CPROVER_ensures(HIT(name) ==> (__CPROVER_return_value == g_named[g_kk].m_pFRef && (g_j >= g_kk || NM(g_j) != name)))
/* no hit: NULL, and no entry at all carries the name */
__CPROVER_ensures(!HIT(name) ==> (__CPROVER_return_value == NULL && (g_j >= g_n || NM(g_j) != name)));

/*@extract {'file':'src/FeatureMap.cpp', 'sig': r'const FeatureRef \*FeatureMap::findFeatureRef\(uint32 name\) const',
   'emit':'const FeatureRef *FeatureMap_findFeatureRef(const FeatureMap *self, uint32 name)',
   'brace_loops':[1], 'inserts':[[1, 'g_kk = (size_t)(it - self->m_pNamedFeats);']],
   'subs':[[r'(\w+) < (m_pNamedFeats \+ m_numFeats)', r'PLT(\1, \2)', 0]],
   'self':['m_pNamedFeats','m_numFeats'],
   'loops':{1: """__CPROVER_assigns(it, g_kk)
                  __CPROVER_loop_invariant((g_n == 0 && it == g_named) || (SAME(it, g_named) && OFF(it) % sizeof(NameAndFeatureRef) == 0 && OFF(it) <= g_n * sizeof(NameAndFeatureRef)))
                  __CPROVER_loop_invariant(g_n == 0 || OFF(it) == 0 ? g_kk == SIZE_MAX : (g_kk + 1) * sizeof(NameAndFeatureRef) == OFF(it) && NM(g_kk) != name)
                  __CPROVER_loop_invariant(g_n == 0 || g_j * sizeof(NameAndFeatureRef) >= OFF(it) || g_j >= g_n || NM(g_j) != name)
                  __CPROVER_decreases(g_n == 0 ? 0 : g_n * sizeof(NameAndFeatureRef) - OFF(it))"""}}@*/

/*@extract {'file':'src/inc/FeatureMap.h', 'scope': r'class FeatureRef\s*\{', 'sig': r'uint32 getId\(\) const', 'emit':'static uint32 FeatureRef_getId(const FeatureRef *self)', 'self':['m_id']}@*/
/*@extract {'file':'src/inc/FeatureMap.h', 'scope': r'class FeatureRef\s*\{', 'sig': r'uint16 getNameId\(\) const', 'emit':'static uint16 FeatureRef_getNameId(const FeatureRef *self)', 'self':['m_nameid']}@*/
void NameAndFeatureRef_from(NameAndFeatureRef *self, const FeatureRef *p)
__CPROVER_assigns(self->m_name, self->m_pFRef)
__CPROVER_ensures(self->m_name == p->m_id && self->m_pFRef == p);
/*@extract {'file':'src/inc/FeatureMap.h', 'scope': r'class NameAndFeatureRef\s*\{', 'sig': r'NameAndFeatureRef\(FeatureRef const & p\)', 'ctor': True,
            'emit':'void NameAndFeatureRef_from(NameAndFeatureRef *self, const FeatureRef *p)', 'subs':[[r'p\.(\w+)\(\)', r'FeatureRef_\1(p)', 0], [r'&p\b', 'p', 0]], 'self':['m_name','m_pFRef']}@*/
/*@extract {'file':'src/inc/FeatureMap.h', 'scope': r'class NameAndFeatureRef\s*\{', 'sig': r'bool operator<\(const NameAndFeatureRef& rhs\) const',
            'emit':'static bool NameAndFeatureRef_less(const NameAndFeatureRef *self, const NameAndFeatureRef *rhs)', 'subs':[[r'rhs\.', 'rhs->', 0]], 'self':['m_name']}@*/
int cmpNameAndFeatures(const void *ap, const void *bp)
__CPROVER_assigns()
__CPROVER_ensures(__CPROVER_return_value == (((const NameAndFeatureRef *)ap)->m_name < ((const NameAndFeatureRef *)bp)->m_name ? -1
                                           : ((const NameAndFeatureRef *)ap)->m_name > ((const NameAndFeatureRef *)bp)->m_name ? 1 : 0));
/*@extract {'file':'src/FeatureMap.cpp', 'sig': r'static int cmpNameAndFeatures\(const void \*ap, const void \*bp\)', 'emit':'int cmpNameAndFeatures(const void *ap, const void *bp)', 'casts': True,
            'subs':[[r'const NameAndFeatureRef & a = \*', 'const NameAndFeatureRef * a = ', 0], [r'& b = \*', '* b = ', 0], [r'a < b', 'NameAndFeatureRef_less(a, b)', 0], [r'b < a', 'NameAndFeatureRef_less(b, a)', 0]]}@*/

void h_find(void)
{
    FeatureMap *fm = malloc(sizeof(FeatureMap)); __CPROVER_assume(fm != NULL);
    size_t w_n = nondet_size_t(); __CPROVER_assume(w_n <= 65535);                      /* m_numFeats is a uint16 */
    fm->m_numFeats = (uint16)w_n;
    fm->m_pNamedFeats = w_n == 0 && nondet_bool() ? NULL : malloc(w_n * sizeof(NameAndFeatureRef));   /* exact size; a map without features has no array */
    __CPROVER_assume(w_n == 0 || fm->m_pNamedFeats != NULL);
    g_fm = fm; g_named = fm->m_pNamedFeats; g_n = w_n; g_j = nondet_size_t(); g_kk = SIZE_MAX;
    const FeatureRef *r = FeatureMap_findFeatureRef(fm, nondet_u32());
    (void)r;
    CANARY();
}
void h_cmp(void)
{
    NameAndFeatureRef *a = malloc(sizeof(NameAndFeatureRef)), *b = nondet_bool() ? a : malloc(sizeof(NameAndFeatureRef)); __CPROVER_assume(a && b);
    int r = cmpNameAndFeatures(a, b);
    (void)r;
    CANARY();
}
void h_from(void)
{
    NameAndFeatureRef *e = malloc(sizeof(NameAndFeatureRef)); FeatureRef *f = malloc(sizeof(FeatureRef)); __CPROVER_assume(e && f);
    NameAndFeatureRef_from(e, f);
    CANARY();
}
#endif

#ifdef SILL
/* ================================================================== SillMap::readSill, whole function, unbounded (loop contracts) */
/*@include endian.tc@*/
#ifndef SILLMAX
#define SILLMAX 1048576          /* harness bound on the table length; the largest offset the code can form is 12+8*65535 / 65535+8*65535 < 2^20 */
#endif
/* ---- ghost state */
const SillMap *g_sill; const byte *g_tbl; size_t g_sz;            /* the object, the client's Sill table (NULL: absent) and its exact length */
size_t g_i;                                                        /* ghost index: an arbitrary language entry (g_j: an arbitrary setting of it, g_j == NS(g_i) is the language-id call) */
size_t g_ci;                                                       /* the language entry the code is working on (set at the top of the outer loop body from the loop counter, which the invariant ties to the read cursor) */
size_t g_seq;                                                      /* findFeatureRef calls made so far for the current language entry */
LangFeaturePair *g_lf; size_t g_lf_n; unsigned g_lf_allocs; bool g_oom;        /* the array `new LangFeaturePair[n]` returned, its element count (the array cookie), number of new[] expressions evaluated */
/* log of what happened for language g_i */
struct { unsigned copies; const Features *copy_src; Features *feats;          /* new Features(x): how often, of what, result */
         size_t nfind, nfound, napply;                                        /* calls of findFeatureRef / of them non-NULL / calls of applyValToFeature */
         bool find_logged; uint32 find_name; const FeatureRef *find_ret;      /* the g_j-th findFeatureRef call */
         unsigned app_cnt; const FeatureRef *app_ref; uint32 app_val; const Features *app_dest; /* applyValToFeature calls between the g_j-th find and the next */
       } L;
/* ---- the table as the format document lays it out (big-endian).  The harness evaluates these ONCE, for the ghost indices, into the scalars below
        (every further symbolic-index read of the table multiplies the solver's array constraints); the contract speaks about the scalars. */
#define T16(o) ((uint16)(((uint16)g_tbl[(o)] << 8) | g_tbl[(o) + 1]))
#define T32(o) (((uint32)g_tbl[(o)] << 24) | ((uint32)g_tbl[(o) + 1] << 16) | ((uint32)g_tbl[(o) + 2] << 8) | (uint32)g_tbl[(o) + 3])
uint32 G_VERSION; size_t G_NLANG;                 /* header: T32(0), T16(4)                                 (meaningful when g_sz >= 12) */
uint32 G_LANGID; size_t G_NSET, G_SOFF;           /* entry g_i: T32(12+8i), T16(12+8i+4), T16(12+8i+6)      (meaningful when g_i < G_NLANG and the entry array is inside) */
uint32 G_SNAME; uint16 G_SVAL;                    /* setting g_j of entry g_i: T32(SOFF+8j), T16(SOFF+8j+4) (meaningful when g_j < G_NSET and the list is inside) */
#define G_ENTRY_OK   (G_NSET == 0 || G_SOFF + 8 * G_NSET <= g_sz)
#define NLANG G_NLANG

/* ---- callees outside the target: models with bodies (they log, they never touch the table or the SillMap) */
const FeatureRef *nondet_fref(void);
static Table SillTable_get(const Face *face)
{   /* Face::Table sill(face, Tag::Sill): constructor contract = unit c16_ctor; hands out the client's buffer and its exact length */
    Table t; t._f = face; t._p = g_tbl; t._sz = g_tbl ? g_sz : 0; t._compressed = 0;
    return t;
}
static LangFeaturePair *new_LangFeaturePair_array(size_t n)
{   /* new LangFeaturePair[n]: NULL (build with -fcheck-new) or n default-constructed elements; LangFeaturePair() : m_lang(0), m_pFeatures(0) is
       applied at the ghost index only, every other element is arbitrary (over-approximation) */
    LangFeaturePair *p = nondet_bool() ? NULL : malloc(n * sizeof(LangFeaturePair));
    if (p != NULL && g_i < n) { p[g_i].m_lang = 0; p[g_i].m_pFeatures = NULL; }
    g_lf = p; g_lf_n = n; g_lf_allocs++;
    return p;
}
static Features *Features_new_copy(const Features *src)
{   /* new Features(src): NULL or a fresh object (the copy itself: Vector copy constructor, not modelled - the object is opaque here) */
    Features *r = nondet_bool() ? NULL : malloc(sizeof(Features));
    if (r == NULL) g_oom = true;
    if (g_ci == g_i) { L.copies++; L.copy_src = src; L.feats = r; }
    return r;
}
static const FeatureRef *FeatureMap_findFeatureRef(const FeatureMap *self, uint32 name)
{   /* contract: unit c18_find; here: an arbitrary result, logged */
    __CPROVER_assert(self == &g_sill->m_FeatureMap, "findFeatureRef is asked of the face's own feature map");
    const FeatureRef *r = nondet_fref();
    if (g_ci == g_i) { if (g_seq == g_j) { L.find_logged = true; L.find_name = name; L.find_ret = r; } L.nfind++; if (r != NULL) L.nfound++; }
    g_seq++;
    return r;
}
static bool FeatureRef_applyValToFeature(const FeatureRef *self, uint32 val, Features *pDest)
{   /* contract: unit c18_apply (range check, masked store, writes only *pDest and the word buffer it owns); here: logged */
    __CPROVER_assert(self != NULL && pDest != NULL, "applyValToFeature: receiver and destination are objects");
    if (g_ci == g_i) { L.napply++; if (g_seq == g_j + 1) { L.app_cnt++; L.app_ref = self; L.app_val = val; L.app_dest = pDest; } }
    return nondet_bool();
}

/* ---- what the log must look like */
#define LOG_CLEAN      (L.copies == 0 && L.nfind == 0 && L.nfound == 0 && L.napply == 0 && !L.find_logged && L.app_cnt == 0)
/* after k findFeatureRef calls for language i (k <= NSET(i) + 1): the g_j-th call asked for the name of setting g_j (name 1 for the call after
   the last setting), and exactly when it found a feature, that feature was applied once, with the value of that setting (the language id for the
   last call), to this language's own vector, before the next lookup */
#define WANT_NAME(i)   (g_j < G_NSET ? G_SNAME : (uint32)1)
#define WANT_VAL(i)    (g_j < G_NSET ? (uint32)G_SVAL : G_LANGID)
#define LOG_UPTO(i, k) (L.nfind == (k) && L.napply == L.nfound && L.copies == 1 && L.copy_src == &g_sill->m_FeatureMap.m_defaultFeatures && L.feats != NULL \
        && (g_j < (k) ? (L.find_logged == true && L.find_name == WANT_NAME(i) \
                          && (L.find_ret != NULL ? (L.app_cnt == 1 && L.app_ref == L.find_ret && L.app_val == WANT_VAL(i) && L.app_dest == L.feats) : L.app_cnt == 0)) \
                      : (!L.find_logged && L.app_cnt == 0)))
#define LOG_DONE(i)    LOG_UPTO(i, G_NSET + 1)
#define LF(i)          (self->m_langFeats[i])

#define L_UNCHANGED(OLD) (L.copies == OLD(L.copies) && L.copy_src == OLD(L.copy_src) && L.feats == OLD(L.feats) && L.nfind == OLD(L.nfind) && L.nfound == OLD(L.nfound) \
        && L.napply == OLD(L.napply) && L.find_logged == OLD(L.find_logged) && L.find_name == OLD(L.find_name) && L.find_ret == OLD(L.find_ret) \
        && L.app_cnt == OLD(L.app_cnt) && L.app_ref == OLD(L.app_ref) && L.app_val == OLD(L.app_val) && L.app_dest == OLD(L.app_dest))

/* ---- one language entry: the body of the outer loop of readSill (statements from `uint32 langid = ...` to the end of the loop body), as a function.
        Unit c18_sill_entry proves this contract on the extracted statements; unit c18_readsill cuts exactly these statements out of the whole
        function (same anchors) and uses the contract in their place. */
bool readSill_entry(SillMap *self, const Table sill, const byte **p, int i)
__CPROVER_requires(self == g_sill && self->m_langFeats == g_lf && g_lf != NULL && g_lf_n == NLANG && self->m_numLanguages == NLANG && 0 <= i && (size_t)i < NLANG && !g_oom)
__CPROVER_requires(sill._p == g_tbl && sill._sz == g_sz && g_tbl != NULL && OFF(g_tbl) == 0 && OBJSZ(g_tbl) == g_sz && g_sz <= SILLMAX && g_sz >= 12 + 8 * NLANG)
__CPROVER_requires(OBJSZ(g_lf) == g_lf_n * sizeof(LangFeaturePair) && OFF(g_lf) == 0)
__CPROVER_requires(SAME(*p, g_tbl) && OFF(*p) == 12 + 8 * (size_t)i)
__CPROVER_requires((size_t)i != g_i || (LOG_CLEAN && g_lf[i].m_pFeatures == NULL))
__CPROVER_assigns(*p, g_lf[i], g_ci, g_seq, g_oom, L)
/* the cursor moves on by exactly one 8-byte record */
__CPROVER_ensures(__CPROVER_return_value ==> (SAME(*p, g_tbl) && OFF(*p) == 12 + 8 * ((size_t)i + 1)))
__CPROVER_ensures(g_ci == (size_t)i && (g_oom ==> !__CPROVER_return_value))
/* entry g_i, accepted: the setting list lies inside the table, the stored pair is (tag of the record, a fresh copy of the defaults) and the copy received exactly the listed settings (LOG_DONE) */
__CPROVER_ensures(((size_t)i == g_i && __CPROVER_return_value) ==> (G_ENTRY_OK && g_lf[i].m_lang == G_LANGID && g_lf[i].m_pFeatures == L.feats && LOG_DONE(g_i)))
/* entry g_i, refused: the list is outside the table (nothing was created) or the copy could not be allocated; the pair still holds NULL */
__CPROVER_ensures(((size_t)i == g_i && !__CPROVER_return_value) ==> (g_lf[i].m_pFeatures == NULL && ((!G_ENTRY_OK && L.copies == 0) || (g_oom && L.copies == 1 && L.feats == NULL))))
/* any other entry: the log of entry g_i is untouched */
__CPROVER_ensures((size_t)i != g_i ==> L_UNCHANGED(__CPROVER_old));

/*@extract {'if':'UNIT_c18_sill_entry', 'file':'src/FeatureMap.cpp', 'kind':'range', 'scope': r'bool SillMap::readSill\(const Face & face\)',
   'start': r'\buint32 langid\b', 'end': r'\}\s*return true;',
   'pre':'bool readSill_entry(SillMap *self, const Table sill, const byte **p, int i)\n{\ng_ci = (size_t)i; g_seq = 0;\n', 'post':'\n    return true;\n}\n',
   'subs':[[r'sill\.size\(\)', 'sill._sz', 0], [r'\bsill \+ ', 'sill._p + ', 0],
           [r'be::read<(\w+)>\((\w+)\)', r'be_read_\1(&\2)', 0],
           [r'new Features\(m_FeatureMap\.m_defaultFeatures\)', 'Features_new_copy(&m_FeatureMap.m_defaultFeatures)', 0],
           [r'm_FeatureMap\.findFeatureRef\(', 'FeatureMap_findFeatureRef(&m_FeatureMap, ', 0],
           [r'pRef->applyValToFeature\((\w+), \*feats\)', r'FeatureRef_applyValToFeature(pRef, \1, feats)', 0]],
   'refs':['p'], 'self':['m_FeatureMap','m_langFeats','m_numLanguages'],
   'loops':{1: """__CPROVER_assigns(j, pLSet, g_seq, L)
                  __CPROVER_loop_invariant(0 <= j && j <= numSettings && g_seq == (size_t)j)
                  __CPROVER_loop_invariant(SAME(pLSet, g_tbl) && OFF(pLSet) == (size_t)offset + 8 * (size_t)j)
                  __CPROVER_loop_invariant((size_t)i == g_i ? LOG_UPTO(g_i, (size_t)j) && L.feats == feats : L_UNCHANGED(__CPROVER_loop_entry))
                  __CPROVER_decreases(numSettings - j)"""}}@*/

/* ---- the whole function, with the statements of one language entry replaced by the contract above */
bool SillMap_readSill(SillMap *self, const Face *face)
__CPROVER_requires(self == g_sill && self->m_langFeats == NULL && self->m_numLanguages == 0 && g_lf == NULL && g_lf_allocs == 0 && !g_oom && LOG_CLEAN)
__CPROVER_requires(g_tbl == NULL || (OFF(g_tbl) == 0 && OBJSZ(g_tbl) == g_sz && g_sz <= SILLMAX))
__CPROVER_assigns(self->m_langFeats, self->m_numLanguages, g_lf, g_lf_n, g_lf_allocs, g_oom, g_ci, g_seq, L)
/* (1) no table: accepted, the map stays empty (every language gets the defaults) */
__CPROVER_ensures(g_tbl == NULL ==> (__CPROVER_return_value && self->m_langFeats == NULL && self->m_numLanguages == 0))
/* (2) acceptance implies a well-formed table: header present, version 1.0; with languages kept: the entry array and every setting list inside the table */
__CPROVER_ensures((__CPROVER_return_value && g_tbl != NULL) ==> (g_sz >= 12 && G_VERSION == 0x00010000u))
__CPROVER_ensures((__CPROVER_return_value && self->m_numLanguages != 0) ==> (self->m_numLanguages == NLANG && g_sz >= 12 + 8 * NLANG && self->m_FeatureMap.m_numFeats != 0
                   && (g_i >= NLANG || G_ENTRY_OK)))
/* (2b) languages are dropped (count 0, accepted) only when the face has no features or the array could not be allocated */
__CPROVER_ensures((__CPROVER_return_value && g_tbl != NULL && self->m_numLanguages == 0) ==> (NLANG == 0 || self->m_FeatureMap.m_numFeats == 0 || g_lf == NULL))
/* (3) refusal only for a reason: short table, wrong version, entry array or a setting list outside the table, or an allocation failed */
__CPROVER_ensures(!__CPROVER_return_value ==> (g_tbl != NULL && (g_sz < 12 || G_VERSION != 0x00010000u || g_sz < 12 + 8 * NLANG
                   || (g_ci < NLANG && (g_ci != g_i || !G_ENTRY_OK || g_oom)))))
/* (4) the array is the one new[] returned, allocated at most once, with exactly as many elements as the table declares */
__CPROVER_ensures(g_lf_allocs <= 1 && self->m_langFeats == g_lf && (g_lf != NULL ==> (g_lf_n == NLANG && (self->m_numLanguages == 0 || self->m_numLanguages == g_lf_n))))
/* (5) the functional clause: accepted with languages => entry g_i carries the tag of record g_i and a fresh copy of the defaults to which exactly
       the listed settings whose feature exists were applied, in table order, then feature 1 := language id (LOG_DONE, for the ghost setting g_j) */
__CPROVER_ensures((__CPROVER_return_value && self->m_numLanguages != 0 && g_i < NLANG) ==> (LF(g_i).m_lang == G_LANGID && LF(g_i).m_pFeatures == L.feats && LOG_DONE(g_i)))
/* (6) ownership on every path (also refusal half-way): a vector created for entry g_i is stored in entry g_i (so that ~SillMap deletes it),
       an entry not reached still holds NULL; nothing is created without the array */
__CPROVER_ensures((g_lf != NULL && g_i < g_lf_n) ==> (L.copies <= 1 && (L.copies == 1 && L.feats != NULL ? LF(g_i).m_pFeatures == L.feats : LF(g_i).m_pFeatures == NULL)))
__CPROVER_ensures(g_lf == NULL ==> L.copies == 0);

/*@extract {'if':'UNIT_c18_readsill', 'file':'src/FeatureMap.cpp', 'sig': r'bool SillMap::readSill\(const Face & face\)', 'emit':'bool SillMap_readSill(SillMap *self, const Face *face)',
   'cuts':[[r'\buint32 langid\b', r'\}\s*return true;', 'if (!readSill_entry(self, sill, &p, i)) return false;\n']],
   'subs':[[r'const Face::Table sill\(face, TtfUtil::Tag::Sill\);', 'const Table sill = SillTable_get(face);', 0],
           [r'const byte \*p = sill;', 'const byte *p = sill._p;', 0], [r'sill\.size\(\)', 'sill._sz', 0],
           [r'be::read<(\w+)>\((\w+)\)', r'be_read_\1(&\2)', 0],
           [r'new LangFeaturePair\[m_numLanguages\]', 'new_LangFeaturePair_array(m_numLanguages)', 0]],
   'self':['m_FeatureMap','m_langFeats','m_numLanguages'],
   'loops':{1: """__CPROVER_assigns(i, p, g_ci, g_seq, g_oom, L, __CPROVER_object_whole(self->m_langFeats))
                  __CPROVER_loop_invariant(0 <= i && i <= self->m_numLanguages && self->m_numLanguages == NLANG && self->m_langFeats == g_lf && g_lf != NULL && g_lf_n == NLANG && g_lf_allocs == 1 && !g_oom)
                  __CPROVER_loop_invariant(OFF(g_lf) == 0 && OBJSZ(g_lf) == g_lf_n * sizeof(LangFeaturePair))
                  __CPROVER_loop_invariant(SAME(p, g_tbl) && OFF(p) == 12 + 8 * (size_t)i && g_sz >= 12 + 8 * NLANG && sill._p == g_tbl && sill._sz == g_sz && g_tbl != NULL)
                  __CPROVER_loop_invariant(i == 0 || g_ci == (size_t)i - 1)
                  __CPROVER_loop_invariant(g_i >= NLANG || (g_i < (size_t)i ? (LF(g_i).m_lang == G_LANGID && LF(g_i).m_pFeatures == L.feats && G_ENTRY_OK && LOG_DONE(g_i))
                                                                          : (LF(g_i).m_pFeatures == NULL && LOG_CLEAN)))
                  __CPROVER_loop_invariant(g_i < NLANG || LOG_CLEAN)
                  __CPROVER_decreases(self->m_numLanguages - i)"""}}@*/

#ifdef UNIT_c18_readsill
void h_readsill(void)
{
    Face *face = malloc(sizeof(Face)); __CPROVER_assume(face != NULL);
    SillMap *sm = &face->m_Sill;
    sm->m_langFeats = NULL; sm->m_numLanguages = 0;                            /* SillMap() : m_langFeats(NULL), m_numLanguages(0) */
    size_t w_sz = nondet_size_t(); __CPROVER_assume(w_sz <= SILLMAX);
    byte *tbl = nondet_bool() ? NULL : malloc(w_sz);                            /* absent, or an exact-size object with arbitrary bytes */
    g_sill = sm; g_tbl = tbl; g_sz = w_sz; g_i = nondet_size_t(); g_j = nondet_size_t();
    if (tbl != NULL && w_sz >= 12) {
        G_VERSION = T32(0); G_NLANG = T16(4);
        if (g_i < G_NLANG && 12 + 8 * G_NLANG <= w_sz) {
            G_LANGID = T32(12 + 8 * g_i); G_NSET = T16(12 + 8 * g_i + 4); G_SOFF = T16(12 + 8 * g_i + 6);
            if (g_j < G_NSET && G_SOFF + 8 * G_NSET <= w_sz) { G_SNAME = T32(G_SOFF + 8 * g_j); G_SVAL = T16(G_SOFF + 8 * g_j + 4); }
        }
    }
    g_lf = NULL; g_lf_allocs = 0; g_oom = false; g_ci = nondet_size_t(); g_seq = 0;
    L.copies = 0; L.nfind = L.nfound = L.napply = 0; L.find_logged = false; L.app_cnt = 0;
    bool ok = SillMap_readSill(sm, face);
    (void)ok;
    CANARY();
}
#endif

#ifdef UNIT_c18_sill_entry
void h_entry(void)
{
    Face *face = malloc(sizeof(Face)); __CPROVER_assume(face != NULL);
    SillMap *sm = &face->m_Sill;
    size_t w_sz = nondet_size_t(); __CPROVER_assume(w_sz <= SILLMAX && w_sz >= 12);
    byte *tbl = malloc(w_sz); __CPROVER_assume(tbl != NULL);                    /* exact-size object with arbitrary bytes */
    g_sill = sm; g_tbl = tbl; g_sz = w_sz; g_i = nondet_size_t(); g_j = nondet_size_t();
    G_VERSION = T32(0); G_NLANG = T16(4);
    __CPROVER_assume(12 + 8 * G_NLANG <= w_sz);                                 /* established by the header test of readSill (unit c18_readsill: precondition of the call) */
    if (g_i < G_NLANG) {
        G_LANGID = T32(12 + 8 * g_i); G_NSET = T16(12 + 8 * g_i + 4); G_SOFF = T16(12 + 8 * g_i + 6);
        if (g_j < G_NSET && G_SOFF + 8 * G_NSET <= w_sz) { G_SNAME = T32(G_SOFF + 8 * g_j); G_SVAL = T16(G_SOFF + 8 * g_j + 4); }
    }
    sm->m_numLanguages = (uint16)G_NLANG;
    sm->m_langFeats = malloc(G_NLANG * sizeof(LangFeaturePair)); __CPROVER_assume(sm->m_langFeats != NULL);   /* exactly as many pairs as the table declares */
    g_lf = sm->m_langFeats; g_lf_n = G_NLANG; g_oom = false; g_ci = nondet_size_t(); g_seq = nondet_size_t();
    int w_i = (int)nondet_unsigned(); __CPROVER_assume(0 <= w_i && (size_t)w_i < G_NLANG);
    if ((size_t)w_i == g_i) { L.copies = 0; L.nfind = L.nfound = L.napply = 0; L.find_logged = false; L.app_cnt = 0; g_lf[w_i].m_pFeatures = NULL; }
    L.find_logged = nondet_bool();
    if ((size_t)w_i == g_i) L.find_logged = false;
    Table t; t._f = face; t._p = tbl; t._sz = w_sz; t._compressed = false;
    const byte *cur = tbl + 12 + 8 * (size_t)w_i;
    bool ok = readSill_entry(sm, t, &cur, w_i);
    (void)ok;
    CANARY();
}
#endif

#endif

#ifdef FEATREC
/* ================================================================== FeatureMap::readFeats: one feature record (the body of the record loop), unbounded in the table */
/*@include endian.tc@*/
#ifndef FEATMAX
#define FEATMAX 0x1000000u        /* harness bound on the Feat table length (16 MiB; the record array itself ends below 12 + 16*65535) */
#endif
/*@extract {'if':'FEATREC=1', 'file':'src/FeatureMap.cpp', 'kind':'range', 'start': r'const size_t\s+FEAT_HEADER', 'end': r';', 'end_inclusive': True,
            'pre':'enum { SZ_U16 = sizeof(uint16), SZ_I16 = sizeof(int16), SZ_U32 = sizeof(uint32) };\nstatic ',
            'subs':[[r'sizeof\(uint32\)', 'SZ_U32', 0], [r'sizeof\(uint16\)', 'SZ_U16', 0], [r'sizeof\(int16\)', 'SZ_I16', 0]]}@*/
/*@extract {'if':'FEATREC=1', 'file':'src/inc/FeatureMap.h', 'scope': r'class FeatureSetting\s*\{', 'sig': r'int16 value\(\) const', 'emit':'static int16 FeatureSetting_value(const FeatureSetting *self)', 'self':['m_label','m_value']}@*/
/* ---- ghost state */
const byte *g_ftbl; size_t g_fsz;                                 /* the Feat table, exact size */
FeatureMap *g_fmap; FeatureRef *g_feats; size_t g_nfeats;         /* the map, its m_feats array (exactly m_numFeats elements) */
uint16 *g_defvals; unsigned g_defvals_frees, g_other_frees;       /* the scratch array, how often it was freed, frees of anything else */
FeatureSetting *g_uiset; size_t g_uiset_n; unsigned g_uiset_allocs; bool g_uiset_oom;   /* gralloc<FeatureSetting>(n): result, n, calls */
unsigned g_rfs_calls; size_t g_rfs_off; uint16 g_rfs_ret;         /* readFeatureSettings: calls, table offset it was pointed at, its result */
struct { unsigned calls; FeatureRef *self; const Face *face; uint32 max_val, name; uint16 uiName, flags, num_set; FeatureSetting *settings; unsigned short bits_in; } C;   /* the FeatureRef constructor call */
/* the record as the Feat table format lays it out: version 1: id u16, nSettings u16, offset u32, flags u16, label u16 (12 bytes);
   version >= 2: id u32, nSettings u16, reserved u16, offset u32, flags u16, label u16 (16 bytes).  Evaluated once by the harness. */
#define F16(o) ((uint16)(((uint16)g_ftbl[(o)] << 8) | g_ftbl[(o) + 1]))
#define F32(o) (((uint32)g_ftbl[(o)] << 24) | ((uint32)g_ftbl[(o) + 1] << 16) | ((uint32)g_ftbl[(o) + 2] << 8) | (uint32)g_ftbl[(o) + 3])
size_t R_AT, R_SIZE; uint32 R_ID, R_SOFF; uint16 R_NSET, R_FLAGS, R_LABEL;
#define R_SETTINGS_INSIDE ((size_t)R_SOFF <= g_fsz && (size_t)R_SOFF + 4 * (size_t)R_NSET <= g_fsz)

/* ---- callees outside the target: models with bodies; their asserts are the preconditions of the units that hold the real bodies */
unsigned short nondet_ushort(void);
static void free_g(void *q)
{   /* free(), instrumented; the built-in obligations of free stay in force */
    if (q != NULL) { if (q == (void *)g_defvals) g_defvals_frees++; else g_other_frees++; }
    free(q);
}
#define free(q) free_g(q)
static FeatureSetting *gralloc_FeatureSetting(size_t n)
{   /* gralloc<FeatureSetting>(n): NULL or exactly n elements */
    FeatureSetting *r = nondet_bool() ? NULL : (malloc)(n * sizeof(FeatureSetting));
    g_uiset = r; g_uiset_n = n; g_uiset_allocs++; if (r == NULL) g_uiset_oom = true;
    return r;
}
static uint16 readFeatureSettings(const byte *q, FeatureSetting *s, size_t num_settings)
{   /* unit c18_settings proves the body for a region of exactly 4*n bytes and an array of exactly n elements */
    __CPROVER_assert(SAME(q, g_ftbl) && OFF(q) <= g_fsz && 4 * num_settings <= g_fsz - OFF(q), "readFeatureSettings: the region [p, p + 4*num_settings) lies inside the Feat table");
    __CPROVER_assert(s != NULL && s == g_uiset && num_settings == g_uiset_n && num_settings >= 1, "readFeatureSettings: the array has exactly num_settings elements (>= 1)");
    g_rfs_calls++; g_rfs_off = OFF(q); g_rfs_ret = nondet_u16();
    s[0].m_value = (int16)nondet_u16(); s[0].m_label = nondet_u16();           /* only element 0 is read back by the caller */
    return g_rfs_ret;
}
static void FeatureRef_ctor(FeatureRef *self, const Face *face, unsigned short *bits_offset, uint32 max_val, uint32 name, uint16 uiName, flags_t flags, FeatureSetting *settings, uint16 num_set)
{   /* unit c18_ctor proves the allocator for running offsets <= 8128 */
    __CPROVER_assert(*bits_offset <= 8128, "FeatureRef constructor: running bit offset <= 8128 (precondition of unit c18_ctor: the byte-sized word index cannot wrap)");
    __CPROVER_assert(SAME(self, g_feats) && OFF(self) % sizeof(FeatureRef) == 0 && OFF(self) < g_nfeats * sizeof(FeatureRef), "FeatureRef constructor: placement address is an element of m_feats");
    C.calls++; C.self = self; C.face = face; C.max_val = max_val; C.name = name; C.uiName = uiName; C.flags = flags; C.num_set = num_set; C.settings = settings; C.bits_in = *bits_offset;
    unsigned short adv = nondet_ushort(); __CPROVER_assume(adv <= 63);                   /* c18_ctor: the offset advances to the end of the field (at most a skipped word remainder + 32 bits) */
    *bits_offset += adv;
    self->m_nameValues = settings;                                                        /* takes ownership of the settings array (~FeatureRef frees it) */
}

bool readFeats_record(FeatureMap *self, const Face *face, const byte *const feat_start, const byte *const feat_end, const uint32 version,
                      const byte **p, uint16 *const defVals, unsigned short *bits, int i)
__CPROVER_requires(self == g_fmap && self->m_feats == g_feats && self->m_numFeats == g_nfeats && 0 <= i && (size_t)i < g_nfeats && defVals == g_defvals)
__CPROVER_requires(OFF(g_feats) == 0 && OBJSZ(g_feats) == g_nfeats * sizeof(FeatureRef) && OFF(g_defvals) == 0 && OBJSZ(g_defvals) == g_nfeats * sizeof(uint16))
__CPROVER_requires(feat_start == g_ftbl && OFF(g_ftbl) == 0 && OBJSZ(g_ftbl) == g_fsz && g_fsz <= FEATMAX && feat_end == g_ftbl + g_fsz)
/* established by the sanity check in front of the loop: version >= 1.0 and 12 + 16 * numFeats bytes present */
__CPROVER_requires(version >= 0x00010000u && 12 + 16 * g_nfeats <= g_fsz)
__CPROVER_requires(SAME(*p, g_ftbl) && OFF(*p) == R_AT && R_SIZE == (version < 0x00020000u ? 12u : 16u) && R_AT == 12 + R_SIZE * (size_t)i)
__CPROVER_requires(C.calls == 0 && g_rfs_calls == 0 && g_uiset_allocs == 0 && g_uiset == NULL && !g_uiset_oom && g_defvals_frees == 0 && g_other_frees == 0)
__CPROVER_assigns(*p, *bits, defVals[i], g_feats[i], C, g_rfs_calls, g_rfs_off, g_rfs_ret, g_uiset, g_uiset_n, g_uiset_allocs, g_uiset_oom, g_defvals_frees, g_other_frees)
__CPROVER_frees(defVals)
/* accepted: the cursor is on the next record; the settings region lies inside the table */
__CPROVER_ensures(__CPROVER_return_value ==> (SAME(*p, g_ftbl) && OFF(*p) == R_AT + R_SIZE && R_SETTINGS_INSIDE && __CPROVER_old(*bits) <= 8128))
/* accepted: feature i is constructed exactly once from the fields of record i (version-dependent layout) */
__CPROVER_ensures(__CPROVER_return_value ==> (C.calls == 1 && C.self == &g_feats[i] && C.face == face && C.bits_in == __CPROVER_old(*bits)
                   && C.name == R_ID && C.uiName == R_LABEL && C.flags == R_FLAGS && C.num_set == R_NSET))
/* accepted, with settings: an array of exactly nSettings elements is filled from table offset settingsOffset and handed to the feature; the
   maximum is what readFeatureSettings returned, the default is the value of the first setting */
__CPROVER_ensures((__CPROVER_return_value && R_NSET != 0) ==> (g_uiset_allocs == 1 && g_uiset != NULL && g_uiset_n == R_NSET && g_rfs_calls == 1 && g_rfs_off == R_SOFF
                   && C.settings == g_uiset && C.max_val == g_rfs_ret && defVals[i] == (uint16)g_uiset[0].m_value))
/* accepted, without settings: no array, any value allowed (maximum 0xffffffff), default 0 */
__CPROVER_ensures((__CPROVER_return_value && R_NSET == 0) ==> (g_uiset_allocs == 0 && g_rfs_calls == 0 && C.settings == NULL && C.max_val == 0xffffffffu && defVals[i] == 0))
/* accepted: nothing is freed */
__CPROVER_ensures(__CPROVER_return_value ==> (g_defvals_frees == 0 && g_other_frees == 0))
/* refused: for a reason; defVals is freed exactly once, nothing else is; no feature was constructed and no settings array is left behind */
__CPROVER_ensures(!__CPROVER_return_value ==> ((__CPROVER_old(*bits) > 8128 || !R_SETTINGS_INSIDE || g_uiset_oom) && g_defvals_frees == 1 && g_other_frees == 0 && C.calls == 0 && g_uiset == NULL));

/*@extract {'if':'UNIT_c18_featrec', 'file':'src/FeatureMap.cpp', 'kind':'range', 'scope': r'bool FeatureMap::readFeats\(const Face & face\)',
   'start': r'for \(int i = 0, ie = m_numFeats;[^)]*\)', 'end': '@block',
   'pre':'bool readFeats_record(FeatureMap *self, const Face *face, const byte *const feat_start, const byte *const feat_end, const uint32 version,\n                      const byte **p, uint16 *const defVals, unsigned short *bits, int i)\n{\n',
   'post':'\n    return true;\n}\n',
   'subs':[[r'for \(int i = 0, ie = m_numFeats;[^)]*\)', '', 0],
           [r'be::read<(\w+)>\(p\)', r'be_read_\1(&p)', 0], [r'be::skip<(\w+)>\(p\)', r'be_skip_\1(&p)', 0],
           [r'gralloc<FeatureSetting>\(', 'gralloc_FeatureSetting(', 0],
           [r'uiSet\[(\w+)\]\.value\(\)', r'FeatureSetting_value(&uiSet[\1])', 0],
           [r'::new \(m_feats \+ i\) FeatureRef \(face, bits,', 'FeatureRef_ctor(m_feats + i, face, &bits,', 0], [r'FeatureRef::flags_t\(', 'flags_t(', 0]],
   'refs':['p','bits'], 'self':['m_numFeats','m_feats','m_pNamedFeats','m_defaultFeatures']}@*/

/* ---- the part of readFeats in front of the record loop (table fetch, header, sanity checks), as a function: 0 = `return false`, 1 = `return true`,
        2 = falls through to the allocations and the record loop */
static Table FeatTable_get(const Face *face) { Table t; t._f = face; t._p = g_ftbl; t._sz = g_ftbl ? g_fsz : 0; t._compressed = 0; return t; }
int readFeats_head(FeatureMap *self, const Face *face, const byte **pp, uint32 *pversion)
__CPROVER_requires(self == g_fmap && self->m_numFeats == 0 && (g_ftbl == NULL || (OFF(g_ftbl) == 0 && OBJSZ(g_ftbl) == g_fsz && g_fsz <= FEATMAX)))
__CPROVER_assigns(self->m_numFeats, *pp, *pversion)
/* goes on to the record loop only with: a table of at least 12 + 16 * numFeats bytes, version >= 1.0, numFeats != 0 as the header says, cursor behind the 12-byte header
   (exactly the precondition of readFeats_record) */
__CPROVER_ensures(__CPROVER_return_value == 2 ==> (g_ftbl != NULL && g_fsz >= 12 && *pversion == F32(0) && *pversion >= 0x00010000u && self->m_numFeats == F16(4) && self->m_numFeats != 0
                   && 12 + 16 * (size_t)self->m_numFeats <= g_fsz && SAME(*pp, g_ftbl) && OFF(*pp) == 12))
/* accepts at once exactly when there is no table or it declares no features; then the map has no features */
__CPROVER_ensures(__CPROVER_return_value == 1 ==> (self->m_numFeats == 0 && (g_ftbl == NULL || (g_fsz >= 12 && F16(4) == 0))))
/* refuses exactly a short table, a version below 1.0 or a record array that does not fit; the feature count is reset (the half-built map is never indexed) */
__CPROVER_ensures(__CPROVER_return_value == 0 ==> (g_ftbl != NULL && self->m_numFeats == 0 && (g_fsz < 12 || F32(0) < 0x00010000u || 12 + 16 * (size_t)F16(4) > g_fsz)))
__CPROVER_ensures(__CPROVER_return_value <= 2 && __CPROVER_return_value >= 0);
/*@extract {'if':'UNIT_c18_feathead', 'file':'src/FeatureMap.cpp', 'kind':'range', 'scope': r'bool FeatureMap::readFeats\(const Face & face\)',
   'start': r'const Face::Table feat\(face', 'end': r'm_feats = new FeatureRef',
   'pre':'int readFeats_head(FeatureMap *self, const Face *face, const byte **pp, uint32 *pversion)\n{\n', 'post':'\n    *pp = p; *pversion = version;\n    return 2;\n}\n',
   'subs':[[r'const Face::Table feat\(face, TtfUtil::Tag::Feat\);', 'const Table feat = FeatTable_get(face);', 0],
           [r'const byte \* p = feat;', 'const byte * p = feat._p;', 0], [r'feat\.size\(\)', 'feat._sz', 0],
           [r'be::read<(\w+)>\(p\)', r'be_read_\1(&p)', 0], [r'be::skip<(\w+)>\(p\)', r'be_skip_\1(&p)', 0]],
   'self':['m_numFeats','m_feats','m_pNamedFeats','m_defaultFeatures']}@*/
#ifdef UNIT_c18_feathead
void h_feathead(void)
{
    Face *face = malloc(sizeof(Face)); __CPROVER_assume(face != NULL);
    FeatureMap *fm = FACE_FEATUREMAP(face);
    fm->m_numFeats = 0;                                                         /* FeatureMap() : m_numFeats(0) */
    size_t w_sz = nondet_size_t(); __CPROVER_assume(w_sz <= FEATMAX);
    byte *tbl = nondet_bool() ? NULL : (malloc)(w_sz);                          /* absent, or an exact-size object with arbitrary bytes */
    g_ftbl = tbl; g_fsz = w_sz; g_fmap = fm;
    const byte *cur = NULL; uint32 ver = 0;
    int r = readFeats_head(fm, face, &cur, &ver);
    (void)r;
    CANARY();
}
#endif

#ifdef UNIT_c18_featrec
void h_featrec(void)
{
    Face *face = malloc(sizeof(Face)); __CPROVER_assume(face != NULL);
    FeatureMap *fm = FACE_FEATUREMAP(face);
    size_t w_sz = nondet_size_t(); __CPROVER_assume(w_sz >= 12 && w_sz <= FEATMAX);
    byte *tbl = (malloc)(w_sz); __CPROVER_assume(tbl != NULL);                  /* exact-size object with arbitrary bytes */
    g_ftbl = tbl; g_fsz = w_sz; g_fmap = fm;
    const uint32 w_version = F32(0);
    const size_t nf = F16(4);
    __CPROVER_assume(w_version >= 0x00010000u && nf != 0 && 12 + 16 * nf <= w_sz);      /* the sanity check in front of the record loop */
    fm->m_numFeats = (uint16)nf;
    fm->m_feats = (malloc)(nf * sizeof(FeatureRef)); __CPROVER_assume(fm->m_feats != NULL);           /* new FeatureRef[m_numFeats] */
    uint16 *dv = (malloc)(nf * sizeof(uint16)); __CPROVER_assume(dv != NULL);                         /* gralloc<uint16>(m_numFeats) */
    g_feats = fm->m_feats; g_nfeats = nf; g_defvals = dv;
    int w_i = (int)nondet_unsigned(); __CPROVER_assume(0 <= w_i && (size_t)w_i < nf);
    /* record w_i as the format lays it out */
    R_SIZE = w_version < 0x00020000u ? 12 : 16; R_AT = 12 + R_SIZE * (size_t)w_i;
    if (w_version < 0x00020000u) { R_ID = F16(R_AT); R_NSET = F16(R_AT + 2); R_SOFF = F32(R_AT + 4); R_FLAGS = F16(R_AT + 8); R_LABEL = F16(R_AT + 10); }
    else                         { R_ID = F32(R_AT); R_NSET = F16(R_AT + 4); R_SOFF = F32(R_AT + 8); R_FLAGS = F16(R_AT + 12); R_LABEL = F16(R_AT + 14); }
    C.calls = 0; g_rfs_calls = 0; g_uiset_allocs = 0; g_uiset = NULL; g_uiset_oom = false; g_defvals_frees = 0; g_other_frees = 0;
    unsigned short *bits = (malloc)(sizeof(unsigned short)); __CPROVER_assume(bits != NULL);
    const byte *cur = tbl + R_AT;
    bool ok = readFeats_record(fm, face, tbl, tbl + w_sz, w_version, &cur, dv, bits, w_i);
    (void)ok;
    CANARY();
}
#endif
#endif
