/* C01 / C02 - the Silf sub-table header parser Silf::readGraphite (src/Silf.cpp) and the Silf directory loop of
 * Face::readGraphite (src/Face.cpp).
 *
 * The oracle is the table layout of doc/GTF.adoc ("Silf", "SIL_Sub", "JustificationLevel", "PseudoMap"), written down once
 * in spec_layout() below: field offsets are computed from the format, not from the parser's cursor.
 *
 * Silf::readGraphite as ONE function exhausts the solver (> 12 GB), so its body is verified as four consecutive 'range' pieces that
 * cover it without a gap (c01_silf_head, c01_silf_mid, c01_silf_pseudos, c01_silf_tail; cuts immediately before `m_aLig = be::read..`,
 * before the pseudo-map loop `for (int i ..` and before `const size_t clen = ..`).  Each piece is ENFORCED against a contract: the
 * postcondition of piece k over the locals live at the cut (exported to g_cut_*) is the precondition of piece k+1; facts about members
 * are carried by the frames.  The stores of the three loops (placement-new of Justinfo, m_pseudos[i].uid/.gid, Pass::init) are ghost
 * logs in the proof pieces (FRAMEWORK 5) and run for real in the bounded units c01_silf_stores_v2/_v3 on the WHOLE function text,
 * together with the real releaseBuffers under cbmc's memory-leak check.  c01_silf_release: releaseBuffers alone.
 * c01_silf_directory_v2/_v3: Face::readGraphite (whole function, loop contract) with Silf::readGraphite a ghost model.
 */
#include "types.h"
#define assert(x) __CPROVER_assert((x), "source assert: " #x)

/*@unit {'name':'c01_silf_head', 'props':['C01','C02'], 'entry':'h_head', 'enforce':'Silf_rg_head', 'min_loops':1, 'timeout':900, 'backend':'cadical',
  'defines':['SILF_PROOF','PIECE=1'],
  'assumptions':['call site Face::readGraphite: lSilf = next - offset is a difference of uint32 values, hence <= 0xFFFFFFFF (version, numGlyphs, numAttrs, unitsPerEm are arbitrary)', 'p + n >= silf_end and unsigned(p - silf_start) are evaluated in a flat address space: the cursor may have left the buffer by at most 255*8 / 255*2+1 / 255*4 / 129*4+6 bytes when it is compared (driver: pointer relations outside the object are not judged, every dereference is)',
                 'gralloc<Justinfo>(n): NULL or a block of n*sizeof(Justinfo) bytes; the placement-new of Justinfo is a ghost log whose assert (address is an element of the block) is the obligation; the real constructor runs in c01_silf_stores_v2/_v3',
                 'Silf::releaseBuffers is the model proved on the real body by c01_silf_release'],
  'claims':'Silf::readGraphite piece 1 (first statement up to, not including, `m_aLig = be::read..`; sub-table of arbitrary length < 2^32 and arbitrary bytes, arbitrary version): every read lies inside [silf_start, silf_start + lSilf); the piece is passed only if version < 6.0, the fixed header (20 bytes, 28 from 3.0), the numJLevels justification levels and the 10 bytes behind them lie inside the sub-table, maxGlyphID < numGlyphs; then every stored header field is the table field of doc/GTF.adoc (numPasses, iSubst, iPos, iJust, iBidi, flags, attrPseudo, attrBreakWeight, attrDirectionality, attrMirroring, attrSkipPasses, numJLevels, extraAscent, extraDescent), m_justs has exactly numJLevels elements (NULL if 0), element k is built from bytes 0..3 of jLevels[k], the cursor stands behind jLevels[]; on rejection all five buffers are NULL, nothing stays allocated and face.error is set'}@*/
/*@unit {'name':'c01_silf_mid', 'props':['C01','C02'], 'entry':'h_mid', 'enforce':'Silf_rg_mid', 'timeout':900, 'backend':'cadical',
  'defines':['SILF_PROOF','PIECE=2'], 'unwind':4,
  'assumptions':['the state at the cut is arbitrary subject to the postcondition of c01_silf_head (cursor behind jLevels[], Y.okL, m_numPasses = numPasses of the table, m_justs as allocated); every other member is arbitrary',
                 'call site Face::readGraphite: lSilf = next - offset is a difference of uint32 values, hence <= 0xFFFFFFFF (version, numGlyphs, numAttrs, unitsPerEm are arbitrary)', 'p + n >= silf_end and unsigned(p - silf_start) are evaluated in a flat address space: the cursor may have left the buffer by at most 255*8 / 255*2+1 / 255*4 / 129*4+6 bytes when it is compared (driver: pointer relations outside the object are not judged, every dereference is)',
                 'new Pseudo[n] (operator new[] of CLASS_NEW_DELETE = gralloc<byte>): NULL or a block of n*sizeof(Pseudo) bytes',
                 'Silf::releaseBuffers is the model proved on the real body by c01_silf_release'],
  'claims':'Silf::readGraphite piece 2 (`m_aLig = ..` up to, not including, the pseudo-map loop; loop-free): every read lies inside the sub-table although the cursor is advanced by font-controlled amounts (2*numCritFeatures, 4*numScriptTag, 4*numPasses) before each bounds test; the piece is passed only if the whole fixed part up to and including the pseudo map lies inside the sub-table (Y.ok), the class map starts at or before oPasses[0] and oPasses[0] <= lSilf, numPasses <= 128, iSubst <= iPos <= iJust <= numPasses, iBidi = 0xFF or iJust <= iBidi <= numPasses, numLigComp <= 127, attrPseudo / attrBreakWeight / attrDirectionality / attrMirroring < numAttrs, attCollisions = 0 or attCollisions + 5 < numAttrs (for numAttrs >= 5, see the note at the clause); the stored m_aLig, m_aUser, m_iMaxComp, m_dir (= direction - 1), m_aCollision, m_gEndLine, m_numPseudo are the table fields; m_pseudos has exactly numPseudo elements; o_passes = &oPasses[0], passes_start = oPasses[0], the cursor stands at pMaps[0]; on rejection all five buffers are NULL, nothing stays allocated and face.error is set'}@*/
/*@unit {'name':'c01_silf_pseudos', 'props':['C01','C02'], 'entry':'h_pseudos', 'enforce':'Silf_rg_pseudos', 'min_loops':1, 'timeout':900, 'backend':'cadical',
  'defines':['SILF_PROOF','PIECE=4'],
  'assumptions':['the state at the cut is arbitrary subject to the postcondition of c01_silf_mid (Y.ok, cursor at pMaps[0], m_numPseudo = numPseudo, m_pseudos an array of numPseudo elements)',
                 'call site Face::readGraphite: lSilf = next - offset is a difference of uint32 values, hence <= 0xFFFFFFFF (version, numGlyphs, numAttrs, unitsPerEm are arbitrary)',
                 'the two stores m_pseudos[i].uid / .gid are ghost logs whose asserts (i is an element of the array) are the obligations; the real stores run in c01_silf_stores_v2/_v3'],
  'claims':'Silf::readGraphite piece 2b (the pseudo-map loop, loop contract, numPseudo up to 65535): reads exactly 6 bytes per mapping inside the sub-table, stores only into elements 0 .. numPseudo-1 of m_pseudos, element k receives unicode (ULONG) and nPseudo (USHORT) of pMaps[k]; the cursor ends at the ClassMap'}@*/
/*@unit {'name':'c01_silf_tail', 'props':['C01','C02'], 'entry':'h_tail', 'enforce':'Silf_rg_tail', 'min_loops':1, 'timeout':900, 'backend':'cadical',
  'defines':['SILF_PROOF','PIECE=3'],
  'assumptions':['the state at the cut is arbitrary subject to the postconditions of c01_silf_head / _mid / _pseudos (Y.ok, cursor at the ClassMap, o_passes = &oPasses[0], passes_start = oPasses[0] with ClassMap offset <= oPasses[0] <= lSilf, header fields = table fields, pass-index order, buffers as allocated)',
                 'call site Face::readGraphite: lSilf = next - offset is a difference of uint32 values, hence <= 0xFFFFFFFF (version, numGlyphs, numAttrs, unitsPerEm are arbitrary)',
                 'Silf::readClassMap is a ghost model (arbitrary result and error state, may or may not allocate its arrays); Pass::readPass is a ghost model returning success or failure arbitrarily; their asserts are the call-site obligations, i.e. the preconditions of c01_readclassmap and of c01_pass_offsets / c01_pass_codeptrs / c02_readpass_header',
                 'new Pass[n]: NULL or a block of n*sizeof(Pass) bytes; Pass::init is a ghost model (the real accessor runs in c01_silf_stores_v2/_v3); Silf::releaseBuffers is the model proved by c01_silf_release'],
  'claims':'Silf::readGraphite piece 3 (`const size_t clen = readClassMap(..` to the final return; pass loop under a loop contract, numPasses up to 128): readClassMap gets exactly the bytes between the pseudo map and oPasses[0], inside the sub-table; m_passes has exactly numPasses elements; the loop reads oPasses[i], oPasses[i+1] inside the offset array and calls init then readPass on m_passes[i] for i = 0 .. numPasses-1 in order, with the region [oPasses[i], oPasses[i+1]) which is ordered (offsets monotone), starts at or behind the fixed part and ends inside the sub-table, subtable_base = oPasses[i], and the pass type given by iSubst / iPos / iJust; the sub-table is accepted only if the class map and every pass were read successfully; gr_faceinfo is filled from the table (upem, has_bidi_pass, line_ends, space_contextuals, justifies); on rejection all five buffers are NULL and nothing stays allocated'}@*/
/*@include endian.tc@*/
#define be_read_byte be_read_uint8
#define be_skip_byte be_skip_uint8

/* ------------------------------------------------------------------ types copied from the headers */
/*@extract {'file':'src/inc/Error.h', 'kind':'range', 'start': r'enum errcontext\s*\{', 'end': r'\};', 'end_inclusive': True}@*/
/*@extract {'file':'src/inc/Error.h', 'kind':'range', 'start': r'enum error\s*\{', 'end': r'\};', 'end_inclusive': True}@*/
/*@extract {'file':'src/inc/Code.h', 'kind':'range', 'start': r'enum passtype\s*\{', 'end': r'\};', 'end_inclusive': True}@*/
typedef enum passtype passtype;
/*@extract {'file':'include/graphite2/Font.h', 'kind':'range', 'start': r'struct gr_faceinfo\s*\{', 'end': r'\};', 'end_inclusive': True}@*/
typedef struct gr_faceinfo gr_faceinfo;
typedef struct Error { int _e; } Error;
typedef struct Face {
/*@extract {'kind':'members', 'file':'src/inc/Face.h', 'scope': r'class Face\s*\{', 'names':['m_error','m_errcntxt']}@*/
} Face;
typedef struct Silf Silf;
typedef struct Pass {
/*@extract {'kind':'members', 'file':'src/inc/Pass.h', 'scope': r'class Pass\s*\{', 'names':['m_silf']}@*/
} Pass;
typedef struct Pseudo {
/*@extract {'kind':'members', 'file':'src/inc/Silf.h', 'scope': r'class Pseudo\s*\{', 'names':['uid','gid']}@*/
} Pseudo;
typedef struct Justinfo {
/*@extract {'kind':'members', 'file':'src/inc/Silf.h', 'scope': r'class Justinfo\s*\{', 'names':['m_astretch','m_ashrink','m_astep','m_aweight']}@*/
} Justinfo;
struct Silf {
/*@extract {'kind':'members', 'file':'src/inc/Silf.h', 'scope': r'class Silf\s*\{',
   'names':['m_passes','m_pseudos','m_classOffsets','m_classData','m_justs','m_numPasses','m_numJusts','m_sPass','m_pPass','m_jPass','m_bPass','m_flags','m_dir',
            'm_aPseudo','m_aBreak','m_aUser','m_aBidi','m_aMirror','m_aPassBits','m_iMaxComp','m_aCollision','m_aLig','m_numPseudo','m_nClass','m_nLinear','m_gEndLine','m_silfinfo']}@*/
};
/*@extract {'kind':'accessors', 'file':'src/inc/Error.h', 'scope': r'class Error\s*\{', 'prefix':'Error', 'names':['test'], 'fields':['_e']}@*/
/*@extract {'kind':'accessors', 'file':'src/inc/Face.h', 'scope': r'class Face\s*\{', 'prefix':'Face', 'names':['error','error_context'], 'fields':['m_error','m_errcntxt'],
   'subs':[[r'e\.error\(\)', 'e._e', 0]]}@*/
/*@extract {'file':'src/inc/Error.h', 'scope': r'class Error\s*\{', 'sig': r'operator bool\(\)', 'emit':'static bool Error_bool(Error *self)', 'self':['_e']}@*/
/*@extract {'kind':'accessors', 'file':'src/inc/Pass.h', 'scope': r'class Pass\s*\{', 'prefix':'Pass', 'names':['init'], 'fields':['m_silf']}@*/

bool nondet_bool(void); unsigned nondet_unsigned(void); size_t nondet_size_t(void); int nondet_int(void); unsigned char nondet_uchar(void); unsigned short nondet_ushort(void);
static const uint32 ERROROFFSET = 0xFFFFFFFF;

/* ------------------------------------------------------------------ ghost state */
const byte *g_buf; size_t g_len; uint32 g_version;       /* the sub-table handed to Silf::readGraphite */
Silf *g_self; Face *g_face;
unsigned short g_numGlyphs, g_numAttrs, g_upem;         /* face.glyphs(): arbitrary */
#define IN_BUF(p, n)  (SAME((p), g_buf) && (size_t)OFF(p) <= g_len && (size_t)(n) <= g_len - (size_t)OFF(p))

/* The SIL_Sub layout of doc/GTF.adoc: offsets (relative to the start of the sub-table) of its variable-position parts.
   ok == the fixed-format part up to and including the pseudo map lies inside the sub-table. */
typedef struct Layout { bool okH, okL, okC, okP, ok; size_t hdr, nP, nJ, J, L, nC, C, nS, S, OP, P, nPs, PM, K; } Layout;
Layout g_y;
static void spec_layout(const byte *b, size_t len, uint32 v, Layout *y)
{
    y->okH = y->okL = y->okC = y->okP = y->ok = false;
    y->nP = y->nJ = y->J = y->L = y->nC = y->C = y->nS = y->S = y->OP = y->P = y->nPs = y->PM = y->K = 0;
    y->hdr = v >= 0x00030000u ? 8 : 0;                       /* 3.0 added ruleVersion, passOffset, pseudosOffset */
    if (len < y->hdr + 20) return;                           /* maxGlyphID .. numJLevels */
    y->nP = b[y->hdr + 6]; y->nJ = b[y->hdr + 19];
    y->J = y->hdr + 20;                                      /* jLevels[]: 8 bytes each */
    y->L = y->J + 8 * y->nJ;                                 /* numLigComp(2) numUserDefn maxCompPerLig direction attCollisions reserved(3) numCritFeatures */
    y->okH = true;
    if (y->L + 10 > len) return;
    y->nC = b[y->L + 9];
    y->C = y->L + 10 + 2 * y->nC;                            /* reserved, numScriptTag */
    y->okL = true;
    if (y->C + 2 > len) return;
    y->nS = b[y->C + 1];
    y->S = y->C + 2 + 4 * y->nS;                             /* lbGID */
    y->OP = y->S + 2;                                        /* oPasses[numPasses + 1] */
    y->P = y->OP + 4 * (y->nP + 1);                          /* numPseudo searchPseudo pseudoSelector pseudoShift */
    y->okC = true;
    if (y->P + 8 > len) return;
    y->nPs = be_peek_uint16(b + y->P);
    y->PM = y->P + 8;                                        /* pMaps[]: 6 bytes each */
    y->K = y->PM + 6 * y->nPs;                               /* ClassMap */
    y->okP = true;
    if (y->K > len) return;
    y->ok = true;
}
/* big-endian USHORT / ULONG at offset o of the sub-table (FIXED/ULONG/USHORT of the TrueType conventions) */
#define PK16(o)   ((uint32)(((uint32)g_buf[(o)] << 8) | g_buf[(o) + 1]))
#define PK32(o)   ((uint32)(((uint32)g_buf[(o)] << 24) | ((uint32)g_buf[(o) + 1] << 16) | ((uint32)g_buf[(o) + 2] << 8) | g_buf[(o) + 3]))
#define OPASS(k)  be_peek_uint32(g_buf + g_y.OP + 4 * (size_t)(k))      /* oPasses[k] (only evaluated when g_y.ok) */

/* ------------------------------------------------------------------ callees outside the target: ghost models */
static unsigned short Glyphs_numGlyphs(const Face *f) { (void)f; return g_numGlyphs; }
static unsigned short Glyphs_numAttrs(const Face *f) { (void)f; return g_numAttrs; }
static unsigned short Glyphs_unitsPerEm(const Face *f) { (void)f; return g_upem; }

int g_live;                                              /* blocks allocated for this Silf and not yet released */
Justinfo *g_justs; size_t g_njusts; int g_justs_calls;
Pseudo *g_pseudos; size_t g_npseudo; int g_pseudos_calls;
Pass *g_passes; size_t g_npasses; int g_passes_calls;
int g_cm_calls; int g_release_calls;
size_t g_k;                                              /* ghost index */
bool g_jset; uint8 g_jv[4];                              /* Justinfo constructed at index g_k */
bool g_uset, g_gset; uint32 g_uid, g_gid;                 /* Pseudo fields stored at index g_k */
size_t g_rp_calls; bool g_rp_failed; size_t g_inited;                     /* readPass calls so far */
size_t g_pm0, g_op0;                                     /* cursor offsets captured at loop entry (ghost inserts) */
const byte *g_cut_p, *g_cut_op; uint32 g_cut_ps; int g_cut_e;      /* locals live at the cut reached */

static Justinfo *gralloc_Justinfo(size_t n)
{
    __CPROVER_assert(g_justs_calls == 0, "one justification array");
    g_justs_calls = 1; g_njusts = n;
    Justinfo *r = nondet_bool() ? (Justinfo *)0 : (Justinfo *)malloc(n * sizeof(Justinfo));
    if (r) g_live = g_live + 1;
    return g_justs = r;
}
static Pseudo *Pseudo_new_array(size_t n)                 /* operator new[] of CLASS_NEW_DELETE: gralloc<byte>(size), may return NULL */
{
    __CPROVER_assert(g_pseudos_calls == 0, "one pseudo map");
    g_pseudos_calls = 1; g_npseudo = n;
    Pseudo *r = nondet_bool() ? (Pseudo *)0 : (Pseudo *)malloc(n * sizeof(Pseudo));
    if (r) g_live = g_live + 1;
    return g_pseudos = r;
}
static Pass *Pass_new_array(size_t n)
{
    __CPROVER_assert(g_passes_calls == 0, "one pass array");
    g_passes_calls = 1; g_npasses = n;
    Pass *r = nondet_bool() ? (Pass *)0 : (Pass *)malloc(n * sizeof(Pass));
    if (r) g_live = g_live + 1;
    return g_passes = r;
}

#ifdef SILF_PROOF
/* the two stores of the loops, as ghost logs (a loop contract cannot carry a store of a symbolic value: FRAMEWORK 5);
   unit c01_silf_stores runs the same text with the real stores */
static void Justinfo_new_model(Justinfo *at, uint8 a, uint8 b, uint8 c, uint8 d)
{
    __CPROVER_assert(g_justs != 0 && SAME(at, g_justs) && (size_t)OFF(at) % sizeof(Justinfo) == 0 && (size_t)OFF(at) / sizeof(Justinfo) < g_njusts, "Justinfo placement address is an element of m_justs");
    if ((size_t)OFF(at) / sizeof(Justinfo) == g_k) { g_jset = true; g_jv[0] = a; g_jv[1] = b; g_jv[2] = c; g_jv[3] = d; }
}
#define JUSTINFO_NEW(at, a, b, c, d) Justinfo_new_model(at, a, b, c, d)
static void Pseudo_set_uid(Pseudo *arr, int i, uint32 v)
{
    __CPROVER_assert(arr != 0 && arr == g_pseudos && i >= 0 && (size_t)i < g_npseudo, "m_pseudos[i].uid: i is an element of the array allocated");
    if ((size_t)i == g_k) { g_uset = true; g_uid = v; }
}
static void Pseudo_set_gid(Pseudo *arr, int i, uint32 v)
{
    __CPROVER_assert(arr != 0 && arr == g_pseudos && i >= 0 && (size_t)i < g_npseudo, "m_pseudos[i].gid: i is an element of the array allocated");
    if ((size_t)i == g_k) { g_gset = true; g_gid = v; }
}
#define PSEUDO_SET_uid(arr, i, v) Pseudo_set_uid(arr, i, v)
#define PSEUDO_SET_gid(arr, i, v) Pseudo_set_gid(arr, i, v)
/* Pass::init(Silf *) stores m_silf through m_passes[i] inside the pass loop: ghost model here, the real accessor runs in unit c01_silf_stores */
static void Pass_init_model(Pass *ps, Silf *s)
{
    __CPROVER_assert(g_passes != 0 && g_rp_calls < g_npasses && ps == g_passes + g_rp_calls && s == g_self, "Pass::init: on m_passes[i], i an element of the array allocated, with this Silf");
    g_inited = g_rp_calls + 1;
}
#undef M_init_1
#define M_init_1(ps, s) Pass_init_model(ps, s)
#define PASS_INITED(ps, k) (g_inited == (k) + 1)
/* Silf::releaseBuffers (proved on the real body by unit c01_silf_release): every one of the five blocks that is not NULL is released, all five members become NULL */
static void Silf_releaseBuffers(Silf *self)
{
    if (self->m_passes) g_live = g_live - 1;
    if (self->m_pseudos) g_live = g_live - 1;
    if (self->m_classOffsets) g_live = g_live - 1;
    if (self->m_classData) g_live = g_live - 1;
    if (self->m_justs) g_live = g_live - 1;
    self->m_passes = 0; self->m_pseudos = 0; self->m_classOffsets = 0; self->m_classData = 0; self->m_justs = 0;
    g_release_calls = g_release_calls + 1;
}
#endif

#ifndef SILF_PROOF
#define PASS_INITED(ps, k) ((ps)->m_silf == g_self)
#endif
/* Silf::readClassMap (units c01_readclassmap): any result, any error state, either array allocated or not */
static size_t Silf_readClassMap(Silf *self, const byte *p, size_t data_len, uint32 version, Error *e)
{
    __CPROVER_assert(g_cm_calls == 0, "readClassMap: called once");
    __CPROVER_assert(IN_BUF(p, data_len), "readClassMap: [p, p + data_len) lies inside the sub-table");
    __CPROVER_assert(g_y.ok && (size_t)OFF(p) == g_y.K, "readClassMap: p is the ClassMap of the format (directly after the pseudo map)");
    __CPROVER_assert(g_y.ok && (size_t)OFF(p) + data_len == OPASS(0), "readClassMap: the class map ends where the first pass starts (oPasses[0])");
    __CPROVER_assert(version == g_version, "readClassMap: version handed on");
    g_cm_calls = 1;
    self->m_classOffsets = nondet_bool() ? (uint32 *)0 : (uint32 *)malloc(4);
    self->m_classData = nondet_bool() ? (uint16 *)0 : (uint16 *)malloc(2);
    if (self->m_classOffsets) g_live = g_live + 1;
    if (self->m_classData) g_live = g_live + 1;
    self->m_nClass = nondet_ushort(); self->m_nLinear = nondet_ushort();
    e->_e = nondet_int();
    return nondet_size_t();
}
/* Pass::readPass (units c01_pass_offsets, c01_pass_codeptrs, c02_readpass_header): the asserts are its call-site obligations */
static bool Pass_readPass(Pass *ps, const byte *pass_start, size_t pass_length, size_t subtable_base, Face *face, passtype pt, uint32 version, Error *e)
{
    (void)e;
    const size_t k = g_rp_calls;
    __CPROVER_assert(!g_rp_failed && g_passes != 0 && k < g_npasses && ps == g_passes + k && PASS_INITED(ps, k), "readPass: on m_passes[k], k = number of passes read so far, after init(this)");
    __CPROVER_assert(g_y.ok && k < g_y.nP, "readPass: k < numPasses");
    __CPROVER_assert(IN_BUF(pass_start, pass_length), "readPass: [pass_start, pass_start + pass_length) lies inside the sub-table");
    __CPROVER_assert(g_y.ok && (size_t)OFF(pass_start) == OPASS(k) && subtable_base == OPASS(k), "readPass: the pass starts at oPasses[k], which is also its subtable_base");
    __CPROVER_assert(g_y.ok && OPASS(k) <= OPASS(k + 1) && pass_length == OPASS(k + 1) - OPASS(k), "readPass: pass offsets monotone, the pass ends at oPasses[k+1]");
    __CPROVER_assert(g_y.ok && OPASS(k) >= g_y.K, "readPass: a pass does not start inside the fixed part of the sub-table");
    __CPROVER_assert(face == g_face && version == g_version, "readPass: face and version handed on");
    /* pass type from the format: iSubst / iPos / iJust are the indices of the first pass of each kind */
    __CPROVER_assert(pt == (k >= g_buf[g_y.hdr + 9] ? PASS_TYPE_JUSTIFICATION : k >= g_buf[g_y.hdr + 8] ? PASS_TYPE_POSITIONING : k >= g_buf[g_y.hdr + 7] ? PASS_TYPE_SUBSTITUTE : PASS_TYPE_LINEBREAK),
                     "readPass: pass type by iSubst / iPos / iJust");
    g_rp_calls = k + 1;
    bool r = nondet_bool();
    if (!r) g_rp_failed = true;
    return r;
}
#define M_readPass_7(ps, a, b, c, f, pt, v, e) Pass_readPass(ps, a, b, c, &(f), pt, v, &(e))

/* ------------------------------------------------------------------ Silf::Silf */
/*@extract {'file':'src/Silf.cpp', 'ctor': True, 'sig': r'Silf::Silf\(\) throw\(\)', 'emit':'void Silf_ctor(Silf *self)',
   'self':['m_passes','m_pseudos','m_classOffsets','m_classData','m_justs','m_numPasses','m_numJusts','m_sPass','m_pPass','m_jPass','m_bPass','m_flags','m_dir',
           'm_aPseudo','m_aBreak','m_aUser','m_aBidi','m_aMirror','m_aPassBits','m_iMaxComp','m_aCollision','m_aLig','m_numPseudo','m_nClass','m_nLinear','m_gEndLine','m_silfinfo']}@*/

/* ================================================================== Silf::readGraphite as three consecutive range pieces
   piece 1  (Silf_rg_head):    first statement .. (not including) `m_aLig = be::read..`     - header, justification levels, E_BADENDJUSTS test
   piece 2  (Silf_rg_mid):     `m_aLig = ..` .. (not including) the pseudo-map loop `for (int i ..` - attribute ids, critical features, script tags, oPasses[0], range tests, pseudo map header and allocation
   piece 2b (Silf_rg_pseudos): the pseudo-map loop
   piece 3 (Silf_rg_tail): `const size_t clen = readClassMap(..` .. the final `return true;` - class map call, pass array, per-pass loop, gr_faceinfo
   Each piece is enforced against a contract; the postcondition of piece k about the locals live at the cut (g_cut_*) is the precondition of piece k+1,
   facts about members established earlier are carried by the frames (assigns clauses) of the later pieces. */
#define B          g_buf
#define Y          g_y
#define REACHED    __CPROVER_return_value                 /* the piece ran to its end (piece 3: the sub-table is accepted) */
#define FIVE_NULL(s)  ((s)->m_passes == 0 && (s)->m_pseudos == 0 && (s)->m_classOffsets == 0 && (s)->m_classData == 0 && (s)->m_justs == 0)
/* header fields of SIL_Sub stored in the object (doc/GTF.adoc order: numPasses iSubst iPos iJust iBidi flags maxPre maxPost attrPseudo attrBreakWeight attrDirectionality attrMirroring attrSkipPasses numJLevels) */
#define HDR_FIELDS(s) ((s)->m_numPasses == B[Y.hdr + 6] && (s)->m_sPass == B[Y.hdr + 7] && (s)->m_pPass == B[Y.hdr + 8] && (s)->m_jPass == B[Y.hdr + 9] && (s)->m_bPass == B[Y.hdr + 10] && \
                       (s)->m_flags == B[Y.hdr + 11] && (s)->m_aPseudo == B[Y.hdr + 14] && (s)->m_aBreak == B[Y.hdr + 15] && (s)->m_aBidi == B[Y.hdr + 16] && (s)->m_aMirror == B[Y.hdr + 17] && \
                       (s)->m_aPassBits == B[Y.hdr + 18] && (s)->m_numJusts == B[Y.hdr + 19])
#define JUSTS_STATE(s) ((s)->m_justs == g_justs && (Y.nJ == 0 ? g_justs == 0 : (g_justs != 0 && g_njusts == Y.nJ)))
#define PASS_ORDER(s)  ((s)->m_numPasses <= 128 && (s)->m_sPass <= (s)->m_pPass && (s)->m_pPass <= (s)->m_jPass && (s)->m_jPass <= (s)->m_numPasses)

#if PIECE == 1
bool Silf_rg_head(Silf *self, const byte *const silf_start, size_t lSilf, Face *face, uint32 version)
__CPROVER_requires(self == g_self && face == g_face && silf_start == g_buf && lSilf == g_len && version == g_version)
__CPROVER_requires(FIVE_NULL(self) && g_live == 0 && g_justs == 0 && g_justs_calls == 0 && g_release_calls == 0 && !g_jset)          /* Silf::Silf() */
__CPROVER_assigns(__CPROVER_object_whole(self), face->m_error, face->m_errcntxt, g_live, g_justs, g_njusts, g_justs_calls, g_release_calls, g_jset, __CPROVER_object_whole(g_jv), g_cut_p, g_cut_e)
__CPROVER_ensures(REACHED ==> version < 0x00060000u)
__CPROVER_ensures(REACHED ==> Y.okH)                                                                      /* the fixed header lies inside the sub-table */
__CPROVER_ensures(REACHED ==> Y.okL)                                                                      /* ... and so do the numJLevels justification levels and the ten bytes numLigComp .. numCritFeatures that follow them */
__CPROVER_ensures(REACHED ==> HDR_FIELDS(self))
__CPROVER_ensures(REACHED ==> (self->m_silfinfo.extra_ascent == be_peek_uint16(B + Y.hdr + 2) && self->m_silfinfo.extra_descent == be_peek_uint16(B + Y.hdr + 4)))
__CPROVER_ensures(REACHED ==> be_peek_uint16(B + Y.hdr) < g_numGlyphs)                                     /* maxGlyphID is a glyph of the face */
__CPROVER_ensures(REACHED ==> (SAME(g_cut_p, g_buf) && (size_t)OFF(g_cut_p) == Y.L && g_cut_e == 0))      /* cut 1: the cursor is behind jLevels[] */
__CPROVER_ensures(REACHED ==> (JUSTS_STATE(self) && g_live == (Y.nJ != 0 ? 1 : 0)))                        /* m_justs has numJLevels elements */
__CPROVER_ensures((REACHED && g_k < Y.nJ) ==> (g_jset && g_jv[0] == B[Y.J + 8 * g_k] && g_jv[1] == B[Y.J + 8 * g_k + 1] && g_jv[2] == B[Y.J + 8 * g_k + 2] && g_jv[3] == B[Y.J + 8 * g_k + 3]))
__CPROVER_ensures(REACHED ==> (self->m_passes == 0 && self->m_pseudos == 0 && self->m_classOffsets == 0 && self->m_classData == 0))
__CPROVER_ensures(!REACHED ==> (FIVE_NULL(self) && g_live == 0))                                           /* rejection: nothing stays allocated */
__CPROVER_ensures(!REACHED ==> face->m_error != 0)                                                         /* rejection: an error code is reported */
;
/*@extract {'if':'PIECE=1', 'file':'src/Silf.cpp', 'kind':'range', 'scope': r'bool Silf::readGraphite\(const byte \* const silf_start, size_t lSilf, Face& face, uint32 version\)',
   'start': r'const byte \* p = silf_start,', 'end': r'm_aLig\s*=\s*be::read',
   'pre':'bool Silf_rg_head(Silf *self, const byte *const silf_start, size_t lSilf, Face *face, uint32 version)\n{\n',
   'post':'\n    g_cut_p = p; g_cut_e = e._e;\n    return true;\n}\n',
   'casts': True, 'refs':['face'], 'methods':['test','error','error_context'],
   'subs':[[r'Error e;', 'Error e; e._e = 0;', 0],
           [r'face\.glyphs\(\)\.numGlyphs\(\)', 'Glyphs_numGlyphs(&face)', 0],
           [r'be::read<(\w+)>\((\w+)\)', r'be_read_\1(&\2)', 0], [r'be::skip<(\w+)>\(p\)', r'be_skip_\1(&p)', 0], [r'be::skip<(\w+)>\(p,\s*', r'be_skip_\1(&p, ', 0],
           [r'gralloc<Justinfo>\(', 'gralloc_Justinfo(', 0], [r'::new\(([^()]*)\) Justinfo\(', r'JUSTINFO_NEW(\1, ', 0],
           [r'\breleaseBuffers\(\)', 'Silf_releaseBuffers(self)', 0]],
   'loops':{1:'''__CPROVER_assigns(i, p, g_jset, __CPROVER_object_whole(g_jv))
                 __CPROVER_loop_invariant(i <= self->m_numJusts && SAME(p, silf_start) && (size_t)OFF(p) == Y.J + 8 * (size_t)i)
                 __CPROVER_loop_invariant(g_k >= (size_t)i || (g_jset && g_jv[0] == B[Y.J + 8 * g_k] && g_jv[1] == B[Y.J + 8 * g_k + 1] && g_jv[2] == B[Y.J + 8 * g_k + 2] && g_jv[3] == B[Y.J + 8 * g_k + 3]))
                 __CPROVER_decreases(self->m_numJusts - i)'''},
   'self':['m_passes','m_pseudos','m_classOffsets','m_classData','m_justs','m_numPasses','m_numJusts','m_sPass','m_pPass','m_jPass','m_bPass','m_flags','m_dir',
           'm_aPseudo','m_aBreak','m_aUser','m_aBidi','m_aMirror','m_aPassBits','m_iMaxComp','m_aCollision','m_aLig','m_numPseudo','m_nClass','m_nLinear','m_gEndLine','m_silfinfo']}@*/
#endif

/* harness environment shared by the pieces */
static Silf *env(void)
{
    Silf *s = malloc(sizeof(Silf)); Face *f = malloc(sizeof(Face)); __CPROVER_assume(s && f);
    size_t w_len = nondet_size_t(); uint32 w_version = nondet_unsigned();
    __CPROVER_assume(w_len <= 0xFFFFFFFFu);
    byte *buf = malloc(w_len); __CPROVER_assume(buf);                     /* exactly lSilf bytes, arbitrary contents */
    g_buf = buf; g_len = w_len; g_version = w_version; g_self = s; g_face = f;
    g_numGlyphs = nondet_ushort(); g_numAttrs = nondet_ushort(); g_upem = nondet_ushort();
    g_live = 0; g_justs = 0; g_pseudos = 0; g_passes = 0; g_justs_calls = g_pseudos_calls = g_passes_calls = g_cm_calls = g_release_calls = 0;
    g_jset = g_uset = g_gset = false; g_rp_calls = 0; g_rp_failed = false;
    __CPROVER_assume(g_k < 0x10000);
    spec_layout(buf, w_len, w_version, &g_y);
    return s;
}
#ifdef UNIT_c01_silf_head
void h_head(void)
{
    Silf *s = env();
    Silf_ctor(s);
    bool r = Silf_rg_head(s, g_buf, g_len, g_face, g_version);
    (void)r;
    CANARY();
}
#endif

#if PIECE == 2
bool Silf_rg_mid(Silf *self, const byte *const silf_start, const byte *const silf_end, size_t lSilf, Face *face, uint32 version, const byte *p)
__CPROVER_requires(self == g_self && face == g_face && silf_start == g_buf && silf_end == g_buf + g_len && lSilf == g_len && version == g_version)
__CPROVER_requires(Y.okL && p == g_buf + Y.L)                                                              /* cut 1 (postcondition of piece 1) */
__CPROVER_requires(self->m_numPasses == B[Y.hdr + 6])
__CPROVER_requires(JUSTS_STATE(self) && g_live == (Y.nJ != 0 ? 1 : 0) && self->m_passes == 0 && self->m_pseudos == 0 && self->m_classOffsets == 0 && self->m_classData == 0)
__CPROVER_requires(g_pseudos == 0 && g_pseudos_calls == 0)
__CPROVER_assigns(self->m_aLig, self->m_aUser, self->m_iMaxComp, self->m_dir, self->m_aCollision, self->m_gEndLine, self->m_numPseudo,
                  self->m_passes, self->m_pseudos, self->m_classOffsets, self->m_classData, self->m_justs, face->m_error, face->m_errcntxt,
                  g_live, g_pseudos, g_npseudo, g_pseudos_calls, g_release_calls, g_cut_p, g_cut_op, g_cut_ps, g_cut_e)
__CPROVER_ensures(REACHED ==> Y.ok)                                                                        /* everything up to and including the pseudo map lies inside the sub-table */
__CPROVER_ensures(REACHED ==> (self->m_aLig == be_peek_uint16(B + Y.L) && self->m_aUser == B[Y.L + 2] && self->m_iMaxComp == B[Y.L + 3] && self->m_dir == (uint8)(B[Y.L + 4] - 1) && self->m_aCollision == B[Y.L + 5]))
__CPROVER_ensures(REACHED ==> (self->m_gEndLine == be_peek_uint16(B + Y.S) && self->m_numPseudo == Y.nPs))
/* glyph attribute numbers name glyph attributes of the face */
__CPROVER_ensures(REACHED ==> (self->m_aPseudo < g_numAttrs && self->m_aBreak < g_numAttrs && self->m_aBidi < g_numAttrs && self->m_aMirror < g_numAttrs))
/* NOTE the source tests `m_aCollision >= num_attrs - 5` in size_t: for a face with fewer than 5 glyph attributes the subtraction wraps and ANY attCollisions is accepted
   (e.g. numAttrs = 3, attCollisions = 200).  No memory-safety consequence: SlotCollision::initFromSlot reads the attributes through sparse::operator[], which is total
   (unit c02 sparse lookup); hence the clause is stated for numAttrs >= 5 only and the hole is reported, not claimed. */
__CPROVER_ensures((REACHED && self->m_aCollision != 0 && g_numAttrs >= 5) ==> (size_t)self->m_aCollision + 5 < g_numAttrs)
/* pass indices: numPasses <= 128 (run time: Silf::runGraphite, pass bits), first substitution <= first positioning <= first justification pass <= numPasses, bidi pass index 0xFF or a pass index */
__CPROVER_ensures(REACHED ==> PASS_ORDER(self))
__CPROVER_ensures(REACHED ==> (self->m_bPass == 0xFF || (self->m_jPass <= self->m_bPass && self->m_bPass <= self->m_numPasses)))
__CPROVER_ensures(REACHED ==> self->m_aLig <= 127)
/* cut 2 */
__CPROVER_ensures(REACHED ==> (SAME(g_cut_p, g_buf) && (size_t)OFF(g_cut_p) == Y.PM && g_cut_e == 0))                                 /* cut 2a: the cursor is at pMaps[0] */
__CPROVER_ensures(REACHED ==> (SAME(g_cut_op, g_buf) && (size_t)OFF(g_cut_op) == Y.OP && g_cut_ps == OPASS(0)))                        /* o_passes = &oPasses[0], passes_start = oPasses[0] */
__CPROVER_ensures(REACHED ==> (Y.K <= g_cut_ps && g_cut_ps <= g_len))                                      /* the class map ends at the first pass, which starts inside the sub-table */
__CPROVER_ensures(REACHED ==> (self->m_pseudos != 0 && self->m_pseudos == g_pseudos && g_npseudo == Y.nPs && g_live == (Y.nJ != 0 ? 2 : 1)))   /* m_pseudos has numPseudo elements */
__CPROVER_ensures(REACHED ==> (JUSTS_STATE(self) && self->m_passes == 0 && self->m_classOffsets == 0 && self->m_classData == 0))
__CPROVER_ensures(!REACHED ==> (FIVE_NULL(self) && g_live == 0))
__CPROVER_ensures(!REACHED ==> face->m_error != 0)
;
/*@extract {'if':'PIECE=2', 'file':'src/Silf.cpp', 'kind':'range', 'scope': r'bool Silf::readGraphite\(const byte \* const silf_start, size_t lSilf, Face& face, uint32 version\)',
   'start': r'm_aLig\s*=\s*be::read', 'end': r'for \(int i\b',
   'pre':'bool Silf_rg_mid(Silf *self, const byte *const silf_start, const byte *const silf_end, size_t lSilf, Face *face, uint32 version, const byte *p)\n{\n    Error e; e._e = 0;\n',
   'post':'\n    g_cut_p = p; g_cut_op = o_passes; g_cut_ps = passes_start; g_cut_e = e._e; (void)version;\n    return true;\n}\n',
   'casts': True, 'refs':['face'], 'methods':['test','error','error_context'],
   'subs':[[r'face\.glyphs\(\)\.numAttrs\(\)', 'Glyphs_numAttrs(&face)', 0],
           [r'be::read<(\w+)>\((\w+)\)', r'be_read_\1(&\2)', 0], [r'be::skip<(\w+)>\(p\)', r'be_skip_\1(&p)', 0], [r'be::skip<(\w+)>\(p,\s*', r'be_skip_\1(&p, ', 0],
           [r'new Pseudo\[([^\]]*)\]', r'Pseudo_new_array(\1)', 0],
           [r'\breleaseBuffers\(\)', 'Silf_releaseBuffers(self)', 0]],
   'self':['m_passes','m_pseudos','m_classOffsets','m_classData','m_justs','m_numPasses','m_numJusts','m_sPass','m_pPass','m_jPass','m_bPass','m_flags','m_dir',
           'm_aPseudo','m_aBreak','m_aUser','m_aBidi','m_aMirror','m_aPassBits','m_iMaxComp','m_aCollision','m_aLig','m_numPseudo','m_nClass','m_nLinear','m_gEndLine','m_silfinfo']}@*/
#endif
#ifdef UNIT_c01_silf_mid
void h_mid(void)
{
    Silf *s = env();
    s->m_passes = 0; s->m_pseudos = 0; s->m_classOffsets = 0; s->m_classData = 0;
    g_njusts = g_y.nJ; g_justs = g_y.nJ == 0 ? (Justinfo *)0 : (Justinfo *)malloc(g_y.nJ * sizeof(Justinfo)); __CPROVER_assume(g_y.nJ == 0 || g_justs != 0);
    s->m_justs = g_justs; g_live = g_justs != 0 ? 1 : 0;
    bool r = Silf_rg_mid(s, g_buf, g_buf + g_len, g_len, g_face, g_version, g_buf + g_y.L);
    (void)r;
    CANARY();
}
#endif

#if PIECE == 4
void Silf_rg_pseudos(Silf *self, const byte *const silf_start, const byte *p)
__CPROVER_requires(self == g_self && silf_start == g_buf)
__CPROVER_requires(Y.ok && p == g_buf + Y.PM && self->m_numPseudo == Y.nPs && self->m_pseudos != 0 && self->m_pseudos == g_pseudos && g_npseudo == Y.nPs && !g_uset && !g_gset)      /* cut 2a (postcondition of piece 2) */
__CPROVER_assigns(g_uset, g_gset, g_uid, g_gid, g_pm0, g_cut_p)
__CPROVER_ensures(SAME(g_cut_p, g_buf) && (size_t)OFF(g_cut_p) == Y.K)                                     /* cut 2: the cursor is behind the pseudo map = at the ClassMap */
__CPROVER_ensures(g_k < Y.nPs ==> (g_uset && g_uid == PK32(Y.PM + 6 * g_k) && g_gset && g_gid == PK16(Y.PM + 6 * g_k + 4)))     /* m_pseudos[k] = (unicode, nPseudo) of pMaps[k] */
;
/*@extract {'if':'PIECE=4', 'file':'src/Silf.cpp', 'kind':'range', 'scope': r'bool Silf::readGraphite\(const byte \* const silf_start, size_t lSilf, Face& face, uint32 version\)',
   'start': r'for \(int i\b', 'end': r'const size_t clen\b',
   'pre':'void Silf_rg_pseudos(Silf *self, const byte *const silf_start, const byte *p)\n{\n    g_pm0 = (size_t)OFF(p);\n',
   'post':'\n    g_cut_p = p;\n}\n',
   'subs':[[r'be::read<(\w+)>\((\w+)\)', r'be_read_\1(&\2)', 0],
           [r'm_pseudos\[([^\]]*)\]\.(uid|gid) = ([^;]*);', r'PSEUDO_SET_\2(m_pseudos, \1, \3);', 0]],
   'loops':{1:"""__CPROVER_assigns(i, p, g_uset, g_gset, g_uid, g_gid)
                 __CPROVER_loop_invariant(0 <= i && i <= self->m_numPseudo && SAME(p, silf_start) && (size_t)OFF(p) == g_pm0 + 6 * (size_t)i)
                 __CPROVER_loop_invariant(g_k >= (size_t)i || (g_uset && g_uid == PK32(g_pm0 + 6 * g_k) && g_gset && g_gid == PK16(g_pm0 + 6 * g_k + 4)))
                 __CPROVER_decreases(self->m_numPseudo - i)"""},
   'self':['m_pseudos','m_numPseudo']}@*/
#endif
#ifdef UNIT_c01_silf_pseudos
void h_pseudos(void)
{
    Silf *s = env();
    g_npseudo = g_y.nPs; g_pseudos = (Pseudo *)malloc(g_y.nPs * sizeof(Pseudo)); __CPROVER_assume(g_pseudos != 0);
    s->m_pseudos = g_pseudos;
    Silf_rg_pseudos(s, g_buf, g_buf + g_y.PM);
    CANARY();
}
#endif

#if PIECE == 3
bool Silf_rg_tail(Silf *self, const byte *const silf_start, size_t lSilf, Face *face, uint32 version, const byte *p, const byte *o_passes, uint32 passes_start)
__CPROVER_requires(self == g_self && face == g_face && silf_start == g_buf && lSilf == g_len && version == g_version)
__CPROVER_requires(Y.ok && p == g_buf + Y.K && o_passes == g_buf + Y.OP && passes_start == OPASS(0) && Y.K <= passes_start && passes_start <= g_len)      /* cut 2 (postcondition of piece 2) */
__CPROVER_requires(HDR_FIELDS(self) && PASS_ORDER(self))                                                                                           /* pieces 1 and 2, carried by the frames */
__CPROVER_requires(JUSTS_STATE(self) && self->m_pseudos != 0 && self->m_pseudos == g_pseudos && self->m_passes == 0 && self->m_classOffsets == 0 && self->m_classData == 0 && g_live == (Y.nJ != 0 ? 2 : 1))
__CPROVER_requires(g_passes == 0 && g_passes_calls == 0 && g_cm_calls == 0 && g_rp_calls == 0 && !g_rp_failed && g_inited == 0)
__CPROVER_assigns(self->m_passes, self->m_pseudos, self->m_classOffsets, self->m_classData, self->m_justs, self->m_nClass, self->m_nLinear, self->m_silfinfo, face->m_error, face->m_errcntxt,
                  g_live, g_passes, g_npasses, g_passes_calls, g_cm_calls, g_release_calls, g_rp_calls, g_rp_failed, g_op0, g_inited)
__CPROVER_ensures(REACHED ==> (g_cm_calls == 1 && g_rp_calls == Y.nP && !g_rp_failed))                   /* accepted: the class map and every one of the numPasses passes were read successfully */
__CPROVER_ensures(REACHED ==> (self->m_passes != 0 && self->m_passes == g_passes && g_npasses == Y.nP))   /* m_passes has numPasses elements */
__CPROVER_ensures(REACHED ==> (JUSTS_STATE(self) && self->m_pseudos == g_pseudos && g_release_calls == __CPROVER_old(g_release_calls)))   /* nothing released */
__CPROVER_ensures(REACHED ==> (self->m_silfinfo.upem == g_upem && self->m_silfinfo.has_bidi_pass == (self->m_bPass != 0xFF) && self->m_silfinfo.line_ends == (self->m_flags & 1)
                               && (unsigned)self->m_silfinfo.space_contextuals == ((self->m_flags >> 2) & 7u) && self->m_silfinfo.justifies == (self->m_numJusts != 0)))
__CPROVER_ensures(self->m_silfinfo.extra_ascent == __CPROVER_old(self->m_silfinfo.extra_ascent) && self->m_silfinfo.extra_descent == __CPROVER_old(self->m_silfinfo.extra_descent))
__CPROVER_ensures(!REACHED ==> (FIVE_NULL(self) && g_live == 0))
;
/*@extract {'if':'PIECE=3', 'file':'src/Silf.cpp', 'kind':'range', 'scope': r'bool Silf::readGraphite\(const byte \* const silf_start, size_t lSilf, Face& face, uint32 version\)',
   'start': r'const size_t clen\b', 'end': r'return true;', 'end_inclusive': True,
   'pre':'bool Silf_rg_tail(Silf *self, const byte *const silf_start, size_t lSilf, Face *face, uint32 version, const byte *p, const byte *o_passes, uint32 passes_start)\n{\n    Error e; e._e = 0;\n',
   'post':'\n}\n',
   'casts': True, 'refs':['face'], 'methods':['test','error','error_context','init','readPass'],
   'subs':[[r'face\.glyphs\(\)\.unitsPerEm\(\)', 'Glyphs_unitsPerEm(&face)', 0],
           [r'be::read<(\w+)>\((\w+)\)', r'be_read_\1(&\2)', 0], [r'be::peek<(\w+)>\(', r'be_peek_\1(', 0],
           [r'new Pass\[([^\]]*)\]', r'Pass_new_array(\1)', 0],
           [r'\breleaseBuffers\(\)', 'Silf_releaseBuffers(self)', 0],
           [r'\breadClassMap\(([^;]*?), e\)', r'Silf_readClassMap(self, \1, &e)', 0],
           [r'if \(e \|\|', 'if (Error_bool(&e) ||', 0], [r'\.init\(this\)', '.init(self)', 0],
           [r'gr_faceinfo::gr_space_contextuals\(', '(enum gr_space_contextuals)(', 0]],
   'inserts':[[r'for \(size_t i\b', 'g_op0 = (size_t)OFF(o_passes);', 'before']],
   'loops':{1:'''__CPROVER_assigns(i, o_passes, e._e, face.m_error, face.m_errcntxt, g_rp_calls, g_rp_failed, g_live, g_release_calls, g_inited,
                                   self->m_passes, self->m_pseudos, self->m_classOffsets, self->m_classData, self->m_justs)
                 __CPROVER_loop_invariant(i <= self->m_numPasses && SAME(o_passes, silf_start) && (size_t)OFF(o_passes) == g_op0 + 4 * i && g_rp_calls == i && !g_rp_failed)
                 __CPROVER_loop_invariant(self->m_passes == g_passes && self->m_pseudos == g_pseudos && self->m_justs == g_justs && g_release_calls == __CPROVER_loop_entry(g_release_calls))
                 __CPROVER_loop_invariant(g_live == __CPROVER_loop_entry(g_live) && self->m_classOffsets == __CPROVER_loop_entry(self->m_classOffsets) && self->m_classData == __CPROVER_loop_entry(self->m_classData))
                 __CPROVER_decreases(self->m_numPasses - i)'''},
   'self':['m_passes','m_pseudos','m_classOffsets','m_classData','m_justs','m_numPasses','m_numJusts','m_sPass','m_pPass','m_jPass','m_bPass','m_flags','m_dir',
           'm_aPseudo','m_aBreak','m_aUser','m_aBidi','m_aMirror','m_aPassBits','m_iMaxComp','m_aCollision','m_aLig','m_numPseudo','m_nClass','m_nLinear','m_gEndLine','m_silfinfo']}@*/
#endif
#ifdef UNIT_c01_silf_tail
void h_tail(void)
{
    Silf *s = env();
    s->m_passes = 0; s->m_classOffsets = 0; s->m_classData = 0;
    g_njusts = g_y.nJ; g_justs = g_y.nJ == 0 ? (Justinfo *)0 : (Justinfo *)malloc(g_y.nJ * sizeof(Justinfo)); __CPROVER_assume(g_y.nJ == 0 || g_justs != 0);
    s->m_justs = g_justs;
    g_npseudo = g_y.nPs; g_pseudos = (Pseudo *)malloc(g_y.nPs * sizeof(Pseudo)); __CPROVER_assume(g_pseudos != 0);
    s->m_pseudos = g_pseudos; g_live = g_justs != 0 ? 2 : 1; g_inited = 0;
    uint32 w_ps = nondet_unsigned();
    bool r = Silf_rg_tail(s, g_buf, g_len, g_face, g_version, g_buf + g_y.K, g_buf + g_y.OP, w_ps);
    (void)r;
    CANARY();
}
#endif

/* ================================================================== Silf::releaseBuffers on the real body */
/*@unit {'name':'c01_silf_release', 'props':['C01','C16'], 'entry':'h_release', 'checks':['--memory-leak-check'], 'defines':['SILF_REAL'],
  'assumptions':['delete [] m_passes / delete [] m_pseudos: operator delete[] of CLASS_NEW_DELETE is free(); the element destructors (~Pass) are outside this unit'],
  'claims':'Silf::releaseBuffers: whichever of the five blocks (m_passes, m_pseudos, m_classOffsets, m_classData, m_justs) are allocated, each is freed exactly once (no double free, nothing left allocated: memory-leak check) and all five members are NULL afterwards; this is the model used by the three readGraphite pieces'}@*/
#ifdef SILF_REAL
static void Silf_free(void *q) { if (q) g_live = g_live - 1; free(q); }
#define Pass_delete_array(q)   Silf_free(q)
#define Pseudo_delete_array(q) Silf_free(q)
/*@extract {'if':'SILF_REAL', 'file':'src/Silf.cpp', 'sig': r'void Silf::releaseBuffers\(\) throw\(\)', 'emit':'void Silf_releaseBuffers(Silf *self)',
   'subs':[[r'delete \[\] m_passes;', 'Pass_delete_array(m_passes);', 0], [r'delete \[\] m_pseudos;', 'Pseudo_delete_array(m_pseudos);', 0], [r'\bfree\(', 'Silf_free(', 0]],
   'self':['m_passes','m_pseudos','m_classOffsets','m_classData','m_justs']}@*/
#endif
#ifdef UNIT_c01_silf_release
void h_release(void)
{
    Silf *s = malloc(sizeof(Silf)); __CPROVER_assume(s);
    g_live = 0;
    s->m_passes = nondet_bool() ? (Pass *)0 : (Pass *)malloc(nondet_size_t());
    s->m_pseudos = nondet_bool() ? (Pseudo *)0 : (Pseudo *)malloc(nondet_size_t());
    s->m_classOffsets = nondet_bool() ? (uint32 *)0 : (uint32 *)malloc(nondet_size_t());
    s->m_classData = nondet_bool() ? (uint16 *)0 : (uint16 *)malloc(nondet_size_t());
    s->m_justs = nondet_bool() ? (Justinfo *)0 : (Justinfo *)malloc(nondet_size_t());
    g_live = (s->m_passes != 0) + (s->m_pseudos != 0) + (s->m_classOffsets != 0) + (s->m_classData != 0) + (s->m_justs != 0);
    const uint8 np = s->m_numPasses; const uint16 nps = s->m_numPseudo;
    Silf_releaseBuffers(s);
    __CPROVER_assert(FIVE_NULL(s), "releaseBuffers: all five members NULL");
    __CPROVER_assert(g_live == 0, "releaseBuffers: every allocated block released");
    __CPROVER_assert(s->m_numPasses == np && s->m_numPseudo == nps, "releaseBuffers: counts untouched");
    Silf_releaseBuffers(s);                               /* the destructor runs it again */
    __CPROVER_assert(FIVE_NULL(s) && g_live == 0, "releaseBuffers: idempotent");
    free(s);
    CANARY();
}
#endif

/* ================================================================== Face::readGraphite: the Silf directory */
/*@unit {'name':'c01_silf_directory_v2', 'props':['C01','C02'], 'entry':'h_dir', 'enforce':'Face_readGraphite', 'min_loops':1, 'timeout':900, 'backend':'cadical', 'defines':['SILF_DIR','VER3=0'],
  'assumptions':['this unit: table version < 3.0 (any value, also < 2.0); unit c01_silf_directory_v3 covers version >= 3.0: the two units together cover every version',
                 'Silf::readGraphite is a ghost model: its asserts are the call-site obligations (preconditions of unit c01_silf_head); it returns success or failure arbitrarily, and success only for a sub-table of at least 20 bytes (28 from version 3.0): postcondition Y.okH of unit c01_silf_head',
                 'Silf::numPasses() of a loaded sub-table is arbitrary; new Silf[n] is NULL or an array of n default-constructed objects',
                 'the Silf table is at most 0xFFFFFFFF bytes long (sfnt table lengths are 32-bit; the loader stores next = uint32(silf.size()))'],
  'claims':'Face::readGraphite (whole function, Silf table of arbitrary length and bytes): every read of version / compilerVersion / numSub / the offset directory lies inside the table although numSub is not compared with the table length (the n-th directory entry is reached only after n sub-tables of >= 20 / 28 bytes each were accepted, which forces the table to be long enough); every sub-table handed to Silf::readGraphite is a non-empty range [offset, next) inside the table, next = offset of the following entry or the table length for the last one; m_silfs has numSub elements and is indexed below numSub; the face is accepted only if the version is >= 2.0, every sub-table was accepted and one of them has passes'}@*/
/*@unit {'name':'c01_silf_directory_v3', 'props':['C01','C02'], 'entry':'h_dir', 'enforce':'Face_readGraphite', 'min_loops':1, 'timeout':900, 'backend':'cadical', 'defines':['SILF_DIR','VER3=1'],
  'assumptions':['this unit: table version >= 3.0; unit c01_silf_directory_v2 covers version < 3.0',
                 'Silf::readGraphite is a ghost model: its asserts are the call-site obligations (preconditions of unit c01_silf_head); it returns success or failure arbitrarily, and success only for a sub-table of at least 20 bytes (28 from version 3.0): postcondition Y.okH of unit c01_silf_head',
                 'Silf::numPasses() of a loaded sub-table is arbitrary; new Silf[n] is NULL or an array of n default-constructed objects',
                 'the Silf table is at most 0xFFFFFFFF bytes long (sfnt table lengths are 32-bit; the loader stores next = uint32(silf.size()))'],
  'claims':'Face::readGraphite (whole function, Silf table of arbitrary length and bytes): every read of version / compilerVersion / numSub / the offset directory lies inside the table although numSub is not compared with the table length (the n-th directory entry is reached only after n sub-tables of >= 20 / 28 bytes each were accepted, which forces the table to be long enough); every sub-table handed to Silf::readGraphite is a non-empty range [offset, next) inside the table, next = offset of the following entry or the table length for the last one; m_silfs has numSub elements and is indexed below numSub; the face is accepted only if the version is >= 2.0, every sub-table was accepted and one of them has passes'}@*/
#ifdef SILF_DIR
typedef struct SilfD { uint8 m_numPasses; } SilfD;
typedef struct FaceD {
/*@extract {'if':'SILF_DIR', 'kind':'members', 'file':'src/inc/Face.h', 'scope': r'class Face\s*\{', 'names':['m_error','m_errcntxt','m_numSilf','m_silfs'], 'subs':[[r'\bSilf\b', 'SilfD', 0]]}@*/
} FaceD;
static bool FaceD_error(FaceD *f, Error e) { f->m_error = e._e; return false; }               /* Face::error(Error e) { m_error = e.error(); return false; } */
static void FaceD_error_context(FaceD *f, unsigned c) { f->m_errcntxt = c; }                /* Face::error_context(unsigned) */
const byte *g_tab; size_t g_tsz; FaceD *g_fd;
SilfD *g_silfs; size_t g_nsilfs; int g_silfs_calls;
size_t g_sub_calls; bool g_sub_failed; bool g_sub_passes;
#define TVER       PK32T(0)
#define TVER_OF(t) ((uint32)(((uint32)(t)[0] << 24) | ((uint32)(t)[1] << 16) | ((uint32)(t)[2] << 8) | (t)[3]))
#define PK32T(o)   ((uint32)(((uint32)g_tab[(o)] << 24) | ((uint32)g_tab[(o) + 1] << 16) | ((uint32)g_tab[(o) + 2] << 8) | g_tab[(o) + 3]))
#define PK16T(o)   ((uint32)(((uint32)g_tab[(o)] << 8) | g_tab[(o) + 1]))
#define DIR0       ((size_t)(VER3 ? 12 : 8))                            /* version [compilerVersion: 3.0 and later] numSub reserved */
#define NSUB       PK16T(DIR0 - 4)
#define MINSUB     ((size_t)(VER3 ? 28 : 20))                           /* smallest sub-table Silf::readGraphite accepts (c01_silf_head) */
static SilfD *Silf_new_array(size_t n)
{
    __CPROVER_assert(g_silfs_calls == 0, "one Silf array");
    g_silfs_calls = 1; g_nsilfs = n;
    return g_silfs = nondet_bool() ? (SilfD *)0 : (SilfD *)malloc(n * sizeof(SilfD));
}
static bool Silf_readGraphite_model(SilfD *s, const byte *sub, size_t lSilf, FaceD *face, uint32 version)
{
    const size_t k = g_sub_calls;
    __CPROVER_assert(!g_sub_failed && g_silfs != 0 && k < g_nsilfs && s == g_silfs + k, "Silf::readGraphite: on m_silfs[k], k = number of sub-tables read so far, inside the array");
    __CPROVER_assert(k < NSUB, "Silf::readGraphite: k < numSub");
    __CPROVER_assert(SAME(sub, g_tab) && (size_t)OFF(sub) <= g_tsz && lSilf <= g_tsz - (size_t)OFF(sub) && lSilf >= 1 && lSilf <= 0xFFFFFFFFu, "Silf::readGraphite: the sub-table is a non-empty range inside the Silf table");
    __CPROVER_assert((size_t)OFF(sub) == PK32T(DIR0 + 4 * k), "Silf::readGraphite: the sub-table starts at offset[k]");
    __CPROVER_assert((size_t)OFF(sub) + lSilf == (k + 1 == NSUB ? g_tsz : (size_t)PK32T(DIR0 + 4 * (k + 1))), "Silf::readGraphite: the sub-table ends at offset[k+1] (the table length for the last one)");
    __CPROVER_assert(face == g_fd && version == TVER && version >= 0x00020000u, "Silf::readGraphite: this face, the table version (>= 2.0)");
    g_sub_calls = k + 1;
    bool r = nondet_bool();
    __CPROVER_assume(!r || lSilf >= MINSUB);              /* c01_silf_head: accepted ==> Y.okH (lSilf >= hdr + 20) */
    if (!r) g_sub_failed = true;
    return r;
}
static uint8 Silf_numPasses_model(const SilfD *s) { (void)s; uint8 n = nondet_uchar(); if (n) g_sub_passes = true; return n; }

bool Face_readGraphite(FaceD *self, const byte *silf_p, size_t silf_size)
__CPROVER_requires(self == g_fd && silf_p == g_tab && silf_size == g_tsz && g_silfs == 0 && g_silfs_calls == 0 && g_sub_calls == 0 && !g_sub_failed && !g_sub_passes)
__CPROVER_assigns(self->m_error, self->m_errcntxt, self->m_numSilf, self->m_silfs, g_silfs, g_nsilfs, g_silfs_calls, g_sub_calls, g_sub_failed, g_sub_passes)
__CPROVER_ensures(__CPROVER_return_value ==> (silf_p != 0 && silf_size >= 20 && TVER >= 0x00020000u))
__CPROVER_ensures(__CPROVER_return_value ==> (self->m_numSilf == NSUB && self->m_silfs != 0 && self->m_silfs == g_silfs && g_nsilfs == NSUB))
__CPROVER_ensures(__CPROVER_return_value ==> (g_sub_calls == NSUB && !g_sub_failed && g_sub_passes))
__CPROVER_ensures((silf_p != 0 && silf_size >= 20 && TVER >= 0x00020000u) ==> (self->m_silfs == g_silfs && (g_silfs == 0 || self->m_numSilf == g_nsilfs)))     /* whatever is allocated is owned by the face (freed by ~Face) */
;
/*@extract {'if':'SILF_DIR', 'file':'src/Face.cpp', 'sig': r'bool Face::readGraphite\(const Table & silf\)', 'emit':'bool Face_readGraphite(FaceD *self, const byte *silf_p, size_t silf_size)',
   'subs':[[r'Error e;', 'Error e; e._e = 0;', 0], [r'e\.test\(', 'Error_test_2(&e, ', 0],
           [r'\berror_context\(', 'FaceD_error_context(self, ', 0], [r'return error\(e\)', 'return FaceD_error(self, e)', 0],
           [r'const byte \* p = silf;', 'const byte * p = silf_p;', 0], [r'silf\.size\(\)', 'silf_size', 0],
           [r'be::read<(\w+)>\((\w+)\)', r'be_read_\1(&\2)', 0], [r'be::skip<(\w+)>\(p\)', r'be_skip_\1(&p)', 0], [r'be::peek<(\w+)>\(', r'be_peek_\1(', 0],
           [r'new Silf\[([^\]]*)\]', r'Silf_new_array(\1)', 0],
           [r'm_silfs\[i\]\.readGraphite\(silf \+ offset, ([^;]*?), \*this, version\)', r'Silf_readGraphite_model(&m_silfs[i], silf_p + offset, \1, self, version)', 0],
           [r'm_silfs\[i\]\.numPasses\(\)', 'Silf_numPasses_model(&m_silfs[i])', 0]],
   'loops':{1:'''__CPROVER_assigns(i, p, havePasses, e._e, self->m_error, self->m_errcntxt, g_sub_calls, g_sub_failed, g_sub_passes)
                 __CPROVER_loop_invariant(0 <= i && i <= self->m_numSilf && SAME(p, silf_p) && (size_t)OFF(p) == DIR0 + 4 * (size_t)i && g_sub_calls == (size_t)i && !g_sub_failed)
                 __CPROVER_loop_invariant(i == 0 || i == self->m_numSilf || (DIR0 + 4 * (size_t)i + 4 <= silf_size && (size_t)PK32T(DIR0 + 4 * (size_t)i) >= MINSUB * (size_t)i && (size_t)PK32T(DIR0 + 4 * (size_t)i) <= silf_size))
                 __CPROVER_loop_invariant(havePasses == g_sub_passes)
                 __CPROVER_decreases(self->m_numSilf - i)'''},
   'self':['m_numSilf','m_silfs']}@*/
#endif
#ifdef SILF_DIR
void h_dir(void)
{
    FaceD *f = malloc(sizeof(FaceD)); __CPROVER_assume(f);
    size_t w_size = nondet_size_t(); __CPROVER_assume(w_size <= 0xFFFFFFFFu);
    bool w_null = nondet_bool();                           /* a face without a Silf table */
    byte *tab = w_null ? (byte *)0 : malloc(w_size); __CPROVER_assume(w_null || tab);
    __CPROVER_assume(w_null || w_size < 4 || (VER3 ? TVER_OF(tab) >= 0x00030000u : TVER_OF(tab) < 0x00030000u));       /* version class of this unit */
    g_tab = tab; g_tsz = w_size; g_fd = f; g_silfs = 0; g_silfs_calls = 0; g_sub_calls = 0; g_sub_failed = false; g_sub_passes = false;
    bool r = Face_readGraphite(f, tab, w_size);
    (void)r;
    CANARY();
}
#endif

/* ================================================================== Silf::readGraphite whole, with the real stores (bounded) */
/*@unit {'name':'c01_silf_stores_v2', 'props':['C01','C02','C16'], 'entry':'h_stores', 'kind':'bounded', 'unwind':7, 'loop_contracts':False, 'timeout':900, 'backend':'cadical',
  'checks':['--memory-leak-check'], 'defines':['SILF_REAL','SILF_WHOLE','STORES_K=60','STORES_V3=0'],
  'bound':'sub-table of exactly 60 bytes, version 2.0, every byte arbitrary: the justification levels, pseudo-glyph mappings and passes that fit (unwinding assertions at 7 iterations)',
  'assumptions':['Silf::readClassMap and Pass::readPass are the ghost models of the proof pieces (arbitrary result; readClassMap may or may not allocate its two arrays)',
                 'gralloc / operator new[]: NULL or a block of exactly the requested size; delete[] is free() (element destructors outside this unit)'],
  'claims':'Silf::readGraphite (whole function, the text of the three proof pieces in one run, with the real placement-new of Justinfo, the real stores into m_pseudos[i] and the real Pass::init): every store lies inside the array allocated for it (m_justs: numJLevels elements, m_pseudos: numPseudo, m_passes: numPasses); an accepted sub-table has every Justinfo / Pseudo element equal to the table fields and every pass initialised with this Silf; a rejected one has released everything (real releaseBuffers, memory-leak check), an accepted one releases everything in the destructor'}@*/
/*@unit {'name':'c01_silf_stores_v3', 'props':['C01','C02','C16'], 'entry':'h_stores', 'kind':'bounded', 'unwind':7, 'loop_contracts':False, 'timeout':900, 'backend':'cadical',
  'checks':['--memory-leak-check'], 'defines':['SILF_REAL','SILF_WHOLE','STORES_K=70','STORES_V3=1'],
  'bound':'sub-table of exactly 70 bytes, version 3.0 or 5.0, every byte arbitrary: the justification levels, pseudo-glyph mappings and passes that fit (unwinding assertions at 7 iterations)',
  'assumptions':['Silf::readClassMap and Pass::readPass are the ghost models of the proof pieces (arbitrary result; readClassMap may or may not allocate its two arrays)',
                 'gralloc / operator new[]: NULL or a block of exactly the requested size; delete[] is free() (element destructors outside this unit)'],
  'claims':'Silf::readGraphite (whole function, the text of the three proof pieces in one run, with the real placement-new of Justinfo, the real stores into m_pseudos[i] and the real Pass::init): every store lies inside the array allocated for it (m_justs: numJLevels elements, m_pseudos: numPseudo, m_passes: numPasses); an accepted sub-table has every Justinfo / Pseudo element equal to the table fields and every pass initialised with this Silf; a rejected one has released everything (real releaseBuffers, memory-leak check), an accepted one releases everything in the destructor'}@*/
#ifdef SILF_WHOLE
/*@extract {'if':'SILF_WHOLE', 'file':'src/inc/Silf.h', 'scope': r'class Justinfo\s*\{', 'ctor': True, 'sig': r'Justinfo\(uint8 stretch, uint8 shrink, uint8 step, uint8 weight\)',
   'emit':'static void Justinfo_ctor(Justinfo *self, uint8 stretch, uint8 shrink, uint8 step, uint8 weight)', 'self':['m_astretch','m_ashrink','m_astep','m_aweight']}@*/
#define JUSTINFO_NEW(at, a, b, c, d) Justinfo_ctor(at, a, b, c, d)               /* ::new(at) Justinfo(a, b, c, d) */
#define PSEUDO_SET_uid(arr, i, v) ((arr)[i].uid = (v))
#define PSEUDO_SET_gid(arr, i, v) ((arr)[i].gid = (v))
bool Silf_readGraphite(Silf *self, const byte *const silf_start, size_t lSilf, Face *face, uint32 version);
/*@extract {'if':'SILF_WHOLE', 'file':'src/Silf.cpp', 'sig': r'bool Silf::readGraphite\(const byte \* const silf_start, size_t lSilf, Face& face, uint32 version\)',
   'emit':'bool Silf_readGraphite(Silf *self, const byte *const silf_start, size_t lSilf, Face *face, uint32 version)',
   'casts': True, 'refs':['face'], 'methods':['test','error','error_context','init','readPass'],
   'subs':[[r'Error e;', 'Error e; e._e = 0;', 0],
           [r'face\.glyphs\(\)\.numGlyphs\(\)', 'Glyphs_numGlyphs(&face)', 0], [r'face\.glyphs\(\)\.numAttrs\(\)', 'Glyphs_numAttrs(&face)', 0], [r'face\.glyphs\(\)\.unitsPerEm\(\)', 'Glyphs_unitsPerEm(&face)', 0],
           [r'be::read<(\w+)>\((\w+)\)', r'be_read_\1(&\2)', 0], [r'be::skip<(\w+)>\(p\)', r'be_skip_\1(&p)', 0], [r'be::skip<(\w+)>\(p,\s*', r'be_skip_\1(&p, ', 0], [r'be::peek<(\w+)>\(', r'be_peek_\1(', 0],
           [r'gralloc<Justinfo>\(', 'gralloc_Justinfo(', 0], [r'new Pseudo\[([^\]]*)\]', r'Pseudo_new_array(\1)', 0], [r'new Pass\[([^\]]*)\]', r'Pass_new_array(\1)', 0],
           [r'::new\(([^()]*)\) Justinfo\(', r'JUSTINFO_NEW(\1, ', 0],
           [r'm_pseudos\[([^\]]*)\]\.(uid|gid) = ([^;]*);', r'PSEUDO_SET_\2(m_pseudos, \1, \3);', 0],
           [r'\breleaseBuffers\(\)', 'Silf_releaseBuffers(self)', 0],
           [r'\breadClassMap\(([^;]*?), e\)', r'Silf_readClassMap(self, \1, &e)', 0],
           [r'if \(e \|\|', 'if (Error_bool(&e) ||', 0], [r'\.init\(this\)', '.init(self)', 0],
           [r'gr_faceinfo::gr_space_contextuals\(', '(enum gr_space_contextuals)(', 0]],
   'self':['m_passes','m_pseudos','m_classOffsets','m_classData','m_justs','m_numPasses','m_numJusts','m_sPass','m_pPass','m_jPass','m_bPass','m_flags','m_dir',
           'm_aPseudo','m_aBreak','m_aUser','m_aBidi','m_aMirror','m_aPassBits','m_iMaxComp','m_aCollision','m_aLig','m_numPseudo','m_nClass','m_nLinear','m_gEndLine','m_silfinfo']}@*/
#endif
#ifdef SILF_WHOLE
void h_stores(void)
{
    Silf *s = malloc(sizeof(Silf)); Face *f = malloc(sizeof(Face)); __CPROVER_assume(s && f);
    Silf_ctor(s);
    g_self = s; g_face = f;
    g_numGlyphs = nondet_ushort(); g_numAttrs = nondet_ushort(); g_upem = nondet_ushort();
    g_live = 0; g_justs = 0; g_pseudos = 0; g_passes = 0; g_justs_calls = g_pseudos_calls = g_passes_calls = g_cm_calls = g_release_calls = 0;
    g_rp_calls = 0; g_rp_failed = false;
    const uint32 w_version = STORES_V3 ? (nondet_bool() ? 0x00030000u : 0x00050000u) : 0x00020000u;
    /* one call per concrete table size (exact-size buffer, arbitrary bytes) */
#define RUN(K, V) { \
        byte *buf = malloc(K); __CPROVER_assume(buf); \
        g_buf = buf; g_len = (K); g_version = (V); \
        spec_layout(buf, (K), (V), &g_y); \
        bool ok = Silf_readGraphite(s, buf, (K), f, (V)); \
        if (ok) { \
            __CPROVER_assert(g_y.ok, "accepted: the fixed part lies inside the sub-table"); \
            __CPROVER_assert(g_y.nJ == 0 ? s->m_justs == 0 : (s->m_justs != 0 && OBJSZ(s->m_justs) == g_y.nJ * sizeof(Justinfo)), "accepted: m_justs has numJLevels elements"); \
            for (size_t k = 0; k < 6; ++k) if (k < g_y.nJ) \
                __CPROVER_assert(s->m_justs[k].m_astretch == buf[g_y.J + 8 * k] && s->m_justs[k].m_ashrink == buf[g_y.J + 8 * k + 1] && s->m_justs[k].m_astep == buf[g_y.J + 8 * k + 2] && s->m_justs[k].m_aweight == buf[g_y.J + 8 * k + 3], \
                                 "accepted: Justinfo k holds attrStretch, attrShrink, attrStep, attrWeight of jLevels[k]"); \
            __CPROVER_assert(s->m_pseudos != 0 && OBJSZ(s->m_pseudos) == g_y.nPs * sizeof(Pseudo), "accepted: m_pseudos has numPseudo elements"); \
            for (size_t k = 0; k < 6; ++k) if (k < g_y.nPs) \
                __CPROVER_assert(s->m_pseudos[k].uid == PK32(g_y.PM + 6 * k) && s->m_pseudos[k].gid == PK16(g_y.PM + 6 * k + 4), "accepted: Pseudo k holds unicode and nPseudo of pMaps[k]"); \
            __CPROVER_assert(s->m_passes != 0 && OBJSZ(s->m_passes) == g_y.nP * sizeof(Pass) && g_rp_calls == g_y.nP, "accepted: m_passes has numPasses elements, each read"); \
            for (size_t k = 0; k < 6; ++k) if (k < g_y.nP) __CPROVER_assert(s->m_passes[k].m_silf == s, "accepted: pass k initialised with this Silf"); \
            Silf_releaseBuffers(s);                          /* Silf::~Silf */ \
        } \
        __CPROVER_assert(FIVE_NULL(s) && g_live == 0, "rejected, or destroyed: every block released"); \
        free(buf); }
    RUN(STORES_K, w_version)
    free(s); free(f);
    CANARY();
}
#endif
