// replay for the C16 units (and C14's c16_decompress): runs the REAL Face::Table (src/Face.cpp, src/inc/Face.h) against an
// instrumented client (get_table / release_table with a ledger, release frees the buffer so that a later read is an
// ASan report) and checks natively: every pointer from get_table is released exactly once (when a release_table exists),
// no pointer is released that get_table did not return, nothing is read after its release, no library allocation survives
// the last Table, and a compressed table is accepted only if the block decodes (reference decoder spec/lz4_ref.h) to
// exactly the announced size with the version word intact.
// First the verifier's witness is run as it is; the verifier models lz4::decompress by its contract, so the witness bytes
// need not decode the way the model chose - therefore a fixed battery of table shapes (valid block, over/under-announced
// size, wrong version word, unknown scheme, short table, uncompressed) x every life-cycle path is run as well.
#include "witness.h"
#include <vector>
extern "C" size_t __sanitizer_get_current_allocated_bytes(void);   // libasan (the header is not installed here)
#include "inc/Main.h"
#include "inc/Face.h"
#include "inc/TtfUtil.h"
#include "../spec/lz4_ref.h"
using namespace graphite2;

struct Client {
    std::vector<unsigned char> table; bool present;
    int gets, rels, foreign; const void *out_ptr; bool outstanding;
};
static const void *cb_get(const void *h, unsigned int, size_t *len) {
    Client *c = (Client *)h;
    if (!c->present) return 0;
    void *p = malloc(c->table.size() ? c->table.size() : 1);                   // exact-size client buffer
    if (c->table.empty()) { free(p); p = malloc(0); }
    if (!c->table.empty()) memcpy(p, c->table.data(), c->table.size());
    c->out_ptr = p; c->outstanding = true; c->gets++; *len = c->table.size();
    return p;
}
static void cb_release(const void *h, const void *p) {
    Client *c = (Client *)h;
    c->rels++;
    if (!c->outstanding || p != c->out_ptr) { c->foreign++; return; }         // never obtained from get_table, or released twice
    c->outstanding = false; free((void *)p);                                    // the client unmaps it: later reads are ASan reports
}

static int g_accepted = 0;   // runs in which a decompressed table was accepted
static std::string run(const std::vector<unsigned char> &tbl, bool present, bool has_release, unsigned path, unsigned version, const char *what) {
    char msg[512]; msg[0] = 0;
    Client c; c.table = tbl; c.present = present; c.gets = c.rels = c.foreign = 0; c.out_ptr = 0; c.outstanding = false;
    gr_face_ops ops = { sizeof(gr_face_ops), &cb_get, has_release ? &cb_release : 0 };
    Face *face = new Face(&c, ops);
    const size_t before = __sanitizer_get_current_allocated_bytes();
    {
        Face::Table t(*face, TtfUtil::Tag(TtfUtil::Tag::Silf), version);
        // C14: what a compressed table may look like when it is accepted
        const unsigned char *tp = t;                                  // operator const byte *
        if (tp && tp != c.out_ptr) {                                  // not the client's buffer: the library's decompressed copy
            ++g_accepted;
            if (tbl.size() < 20) snprintf(msg, sizeof msg, "%s: table of %zu bytes was decompressed", what, tbl.size());
            else {
                const unsigned hdr = (tbl[4] << 24) | (tbl[5] << 16) | (tbl[6] << 8) | tbl[7];
                const size_t announced = hdr & 0x07ffffff;
                std::vector<unsigned char> ref(announced ? announced : 1);
                lz4ref_result rr = lz4_ref(tbl.data() + 8, tbl.size() - 8, ref.data(), announced, LZ4REF_LENIENT);
                if ((hdr >> 27) != 1) snprintf(msg, sizeof msg, "%s: scheme %u accepted", what, hdr >> 27);
                else if (t.size() != announced) snprintf(msg, sizeof msg, "%s: table size %zu != announced %zu", what, t.size(), announced);
                else if (rr.n != (long)announced) snprintf(msg, sizeof msg, "%s: compressed table accepted although the block decodes to %ld bytes and the header announces %zu", what, rr.n, announced);
                else if (memcmp(ref.data(), (const unsigned char *)t, announced) != 0) snprintf(msg, sizeof msg, "%s: decompressed table differs from the reference decoder's output", what);
                else if (memcmp((const unsigned char *)t, tbl.data(), 4) != 0) snprintf(msg, sizeof msg, "%s: version word of the decompressed table differs from the original", what);
            }
        }
        if (path == 1) { Face::Table u; u = std::move(t); }                                              // member = Table(...): move-assign from a temporary
        else if (path == 2) { Face::Table v(std::move(t)); (void)(const unsigned char *)v; }   // move construction
        else if (path == 3) { t = Face::Table(); }                                               // the Loader's way of dropping a table
    }
    if (!msg[0]) {
        if (c.foreign) snprintf(msg, sizeof msg, "%s (path %u): release_table was called with a pointer that is not an outstanding borrow (%d times)", what, path, c.foreign);
        else if (has_release && c.rels != c.gets) snprintf(msg, sizeof msg, "%s (path %u): %d tables obtained from get_table, %d release_table calls", what, path, c.gets, c.rels);
        else if (has_release && c.outstanding) snprintf(msg, sizeof msg, "%s (path %u): table still borrowed after the last Table was destroyed", what, path);
        else if (!has_release && c.rels) snprintf(msg, sizeof msg, "%s (path %u): release_table called although none was given", what, path);
    }
    if (c.outstanding) { free((void *)c.out_ptr); c.outstanding = false; }                      // no release_table: the client keeps ownership
    const size_t after = __sanitizer_get_current_allocated_bytes();
    if (!msg[0] && after != before) snprintf(msg, sizeof msg, "%s (path %u): %ld bytes allocated by the library are still live after the last Table was destroyed", what, path, (long)(after - before));
    delete face;
    return msg;
}

static void put32(std::vector<unsigned char> &v, unsigned x) { v.push_back(x >> 24); v.push_back(x >> 16); v.push_back(x >> 8); v.push_back(x); }
// [version][scheme<<27 | size][LZ4 block of: version word + one 0 + (n-10) zeros via match + 5 zeros]
static std::vector<unsigned char> compressed_table(unsigned version, unsigned inner_version, unsigned scheme, long size_delta, size_t n = 64) {
    std::vector<unsigned char> t; put32(t, version); put32(t, (scheme << 27) | (unsigned)(n + size_delta));
    const size_t ml = n - 5 - 5;                       // match length
    t.push_back(0x5F); put32(t, inner_version); t.push_back(0);              // 5 literals: version word + one zero; match nibble 15
    t.push_back(1); t.push_back(0);                                           // offset 1
    size_t ext = ml - 4 - 15; while (ext >= 255) { t.push_back(255); ext -= 255; } t.push_back((unsigned char)ext);
    t.push_back(0x50); for (int i = 0; i < 5; ++i) t.push_back(0);          // last literals
    return t;
}

int main(int argc, char **argv) {
    Witness w(argv[1]);
    std::string unit = w.str("unit");
    // 1. the witness as it is
    size_t sz = (size_t)w.unum("w_sz"); if (sz > 24) sz = 24;
    std::vector<unsigned char> tbl(sz);
    for (size_t i = 0; i < sz; ++i) tbl[i] = (unsigned char)w.arr("w_b", (int)i, 0);
    const bool hr = w.num("w_has_release", 1) != 0;
    const unsigned path = (unsigned)w.unum("w_path", 0) % 4;
    std::string m = run(tbl, true, hr, path, 0, "witness table");
    if (!m.empty()) REPLAY_FAIL("%s", m.c_str());
    // 2. the battery
    struct { const char *what; std::vector<unsigned char> t; bool present; } shapes[] = {
        { "valid LZ4-compressed table", compressed_table(0x00050000, 0x00050000, 1, 0), true },
        { "valid LZ4-compressed table (300 bytes)", compressed_table(0x00050000, 0x00050000, 1, 0, 300), true },
        { "compressed table announcing one byte more than the block holds", compressed_table(0x00050000, 0x00050000, 1, +1), true },
        { "compressed table announcing 8 bytes more than the block holds", compressed_table(0x00050000, 0x00050000, 1, +8), true },
        { "compressed table announcing one byte less than the block holds", compressed_table(0x00050000, 0x00050000, 1, -1), true },
        { "compressed table whose decoded version word differs", compressed_table(0x00050000, 0x00040000, 1, 0), true },
        { "table with unknown compression scheme 2", compressed_table(0x00050000, 0x00050000, 2, 0), true },
        { "uncompressed table (scheme 0)", compressed_table(0x00050000, 0x00050000, 0, 0), true },
        { "short table (12 bytes)", std::vector<unsigned char>(12, 0), true },
        { "3-byte table (refused by CheckTable)", std::vector<unsigned char>(3, 0), true },
        { "absent table", std::vector<unsigned char>(), false },
    };
    int runs = 0;
    for (auto &s : shapes)
        for (int h = 0; h < 2; ++h)
            for (unsigned p = 0; p < 4; ++p)
                for (unsigned v = 0; v < 2; ++v) {
                    std::string r = run(s.t, s.present, h != 0, p, v ? 0xffffffffu : 0u, s.what);
                    ++runs;
                    if (!r.empty()) REPLAY_FAIL("%s [release_table %s, version argument %s]", r.c_str(), h ? "given" : "NULL", v ? "0xffffffff" : "0");
                }
    REPLAY_OK("witness and %d battery runs (%d with an accepted decompressed table): borrow discipline holds, compressed tables accepted only when exact", runs, g_accepted);
}
