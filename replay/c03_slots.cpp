// replay for the slot-list units (c03_reverse): builds a REAL Segment with `w_len` slots whose bidi classes come from the
// witness, calls the real Segment::reverseSlots (once and twice) and checks the C03/C19 clauses on the public list API.
#include "witness.h"
#include <graphite2/Font.h>
#include <vector>
#define private public
#include "inc/Face.h"
#include "inc/Segment.h"
#undef private
using namespace graphite2;
static bool walk(Segment &seg, std::vector<Slot *> &out, size_t limit) {
    out.clear(); Slot *prev = 0;
    for (Slot *s = seg.first(); s; s = s->next()) { if (s->prev() != prev || out.size() > limit) return false; out.push_back(s); prev = s; }
    return seg.last() == prev;
}
int main(int argc, char **argv) {
    Witness w(argv[1]);
    int n = (int)w.num("w_len"); if (n < 0) n = 0; if (n > 8) n = 8;
    gr_face *face = gr_make_file_face("tests/fonts/Padauk.ttf", gr_face_default);
    if (!face) { printf("no font\n"); return 0; }
    Segment seg(n ? n : 1, face, 0, 0);
    Features *f = face->theSill().cloneFeatures(0); seg.addFeatures(*f);
    for (int k = 0; k < n; ++k) seg.appendSlot(k, 'a' + k, 1, 0, k);
    int k = 0;
    for (Slot *s = seg.first(); s; s = s->next(), ++k) s->setBidiClass((int8)w.arr("w_cls", k));   // cached class: getSlotBidiClass returns it
    std::vector<Slot *> o0, o1, o2;
    if (!walk(seg, o0, 16)) { printf("setup not well-formed\n"); return 0; }
    seg.reverseSlots();
    if (!walk(seg, o1, 16)) REPLAY_FAIL("after reverseSlots the list is not a well-formed doubly linked chain (%zu slots before)", o0.size());
    if (o1.size() != o0.size()) REPLAY_FAIL("reverseSlots lost slots: %zu before, %zu reachable after", o0.size(), o1.size());
    seg.reverseSlots();
    if (!walk(seg, o2, 16) || o2 != o0) REPLAY_FAIL("reverseSlots twice does not restore the original order");
    delete f;
    REPLAY_OK("reverseSlots");
}
