// replay for the C13 units: runs the REAL cmap code of /repo (TtfUtil lookups, DirectCmap, CachedCmap; library built with
// ASan/UBSan) on a subtable synthesised from the verifier's witness and compares, for all 0x110000 code points, the direct
// lookup, the cached lookup and an independent reference implementation of the OpenType rules.
//   witness: w_len, w_b[i] (subtable bytes, format 4 or 12 by its first word), w_c, w_key
//   built-in scenarios, selected by the unit name or by a line "scenario=<name>" in the witness file:
//     first_segment_from_zero (c13_fill4_cover), fill12_from_zero (c13_fill12_cover), first_group_from_zero (c13_cached_ctor_bmp),
//     last_code_point (c13_cached_ctor_last), bmp_in_both (c13_cached_ctor)
#include "witness.h"
#include <vector>
#include <graphite2/Font.h>
#define private public
#define protected public
#include "CmapCache.cpp"       // the real translation unit: the cache_subtable template, bmp_/smp_subtable, both Cmap classes
#undef private
#undef protected
using namespace graphite2;
typedef std::vector<unsigned char> bytes;

static void p16(bytes &b, unsigned v) { b.push_back((v >> 8) & 0xFF); b.push_back(v & 0xFF); }
static void p32(bytes &b, unsigned v) { p16(b, v >> 16); p16(b, v & 0xFFFF); }
static unsigned g16(const bytes &b, size_t o) { return (b[o] << 8) | b[o + 1]; }
static unsigned g32(const bytes &b, size_t o) { return ((unsigned)g16(b, o) << 16) | g16(b, o + 2); }

// ---- reference: OpenType cmap semantics
static bool wf4(const bytes &t) {
    if (t.size() < 16 || g16(t, 0) != 4) return false;
    unsigned len = g16(t, 2), n = g16(t, 6) >> 1;
    return len <= t.size() && n >= 1 && len >= 16 + 8 * n && g16(t, 14 + 2 * (n - 1)) == 0xFFFF;
}
static bool sorted4(const bytes &t) {
    unsigned n = g16(t, 6) >> 1;
    for (unsigned i = 0; i < n; ++i) {
        unsigned e = g16(t, 14 + 2 * i), s = g16(t, 16 + 2 * n + 2 * i);
        if (s > e) return false;
        if (i + 1 < n && e >= g16(t, 16 + 2 * n + 2 * (i + 1))) return false;
    }
    return true;
}
static unsigned ref4(const bytes &t, unsigned c) {
    if (c > 0xFFFF) return 0;
    unsigned len = g16(t, 2), n = g16(t, 6) >> 1;
    for (unsigned m = 0; m < n; ++m) {
        if (c > g16(t, 14 + 2 * m)) continue;                    // first segment whose endCode >= c
        unsigned st = g16(t, 16 + 2 * n + 2 * m), d = g16(t, 16 + 4 * n + 2 * m), ro = g16(t, 16 + 6 * n + 2 * m);
        if (c < st) return 0;
        if (!ro) return (c + d) & 0xFFFF;
        size_t cell = (size_t)(c - st) + (ro >> 1) + 8 + 3 * n + m;
        if (2 * cell + 1 >= len) return 0;
        unsigned v = g16(t, 2 * cell);
        return v ? (v + d) & 0xFFFF : 0;
    }
    return 0;
}
static bool wf12(const bytes &t) {
    if (t.size() < 28 || g16(t, 0) != 12) return false;
    unsigned len = g32(t, 4), n = g32(t, 12);
    return len <= t.size() && n >= 1 && n <= 0x10000000 && (unsigned long long)len == 16ull + 12ull * n;
}
static bool sorted12(const bytes &t) {
    unsigned n = g32(t, 12);
    for (unsigned i = 0; i < n; ++i) {
        if (g32(t, 16 + 12 * i) > g32(t, 20 + 12 * i)) return false;
        if (i + 1 < n && g32(t, 20 + 12 * i) >= g32(t, 16 + 12 * (i + 1))) return false;
    }
    return true;
}
static unsigned ref12(const bytes &t, unsigned c) {
    unsigned n = g32(t, 12);
    for (unsigned m = 0; m < n; ++m)
        if (g32(t, 16 + 12 * m) <= c && c <= g32(t, 20 + 12 * m)) return (g32(t, 24 + 12 * m) + (c - g32(t, 16 + 12 * m))) & 0xFFFF;
    return 0;
}

// ---- a face that serves exactly one table: cmap
static bytes g_cmap;
static const void *get_table(const void *, unsigned int name, size_t *len) {
    if (name != Tag::cmap) { *len = 0; return 0; }
    void *p = malloc(g_cmap.size());                             // exact-size heap copy: ASan sees any over-read
    memcpy(p, g_cmap.data(), g_cmap.size());
    *len = g_cmap.size();
    return p;
}
static void release_table(const void *, const void *p) { free(const_cast<void *>(p)); }

static bytes make_cmap(const bytes *t4, const bytes *t12) {
    bytes c; unsigned n = (t4 ? 1 : 0) + (t12 ? 1 : 0);
    p16(c, 0); p16(c, n);
    unsigned off = 4 + 8 * n;
    if (t4)  { p16(c, 3); p16(c, 1);  p32(c, off); off += (unsigned)t4->size(); }
    if (t12) { p16(c, 3); p16(c, 10); p32(c, off); }
    if (t4)  c.insert(c.end(), t4->begin(), t4->end());
    if (t12) c.insert(c.end(), t12->begin(), t12->end());
    return c;
}

// compare direct / cached / reference over every code point; returns number of problems (prints the first few)
static int sweep(const bytes *t4, const bytes *t12, const char *what) {
    g_cmap = make_cmap(t4, t12);
    gr_face_ops ops = { sizeof(gr_face_ops), get_table, release_table };
    Face face(&ops, ops);
    DirectCmap direct(face);
    CachedCmap cached(face);
    if (!direct || !cached) { printf("%s: cmap object not usable (direct %d cached %d)\n", what, (int)bool(direct), (int)bool(cached)); return 0; }
    bool have_ref = (!t4 || sorted4(*t4)) && (!t12 || sorted12(*t12));
    int bad = 0;
    for (unsigned c = 0; c < 0x110000; ++c) {
        unsigned d = direct[c], k = cached[c];
        unsigned r = c > 0xFFFF ? (t12 ? ref12(*t12, c) : 0) : (t4 ? ref4(*t4, c) : 0);
        if (d != k) { if (bad++ < 6) printf("%s: U+%04X direct lookup -> glyph %u, cached lookup -> glyph %u (reference %u)\n", what, c, d, k, r); }
        else if (have_ref && d != r) { if (bad++ < 6) printf("%s: U+%04X both lookups -> glyph %u, OpenType rules give %u\n", what, c, d, r); }
    }
    return bad;
}

static bytes table4(const std::vector<unsigned> &st, const std::vector<unsigned> &en, const std::vector<unsigned> &dl, const std::vector<unsigned> &ro, const std::vector<unsigned> &ga) {
    bytes t; unsigned n = (unsigned)st.size();
    p16(t, 4); p16(t, 16 + 8 * n + 2 * (unsigned)ga.size()); p16(t, 0); p16(t, 2 * n); p16(t, 0); p16(t, 0); p16(t, 0);
    for (unsigned i = 0; i < n; ++i) p16(t, en[i]);
    p16(t, 0);
    for (unsigned i = 0; i < n; ++i) p16(t, st[i]);
    for (unsigned i = 0; i < n; ++i) p16(t, dl[i]);
    for (unsigned i = 0; i < n; ++i) p16(t, ro[i]);
    for (size_t i = 0; i < ga.size(); ++i) p16(t, ga[i]);
    return t;
}
static bytes table12(const std::vector<unsigned> &st, const std::vector<unsigned> &en, const std::vector<unsigned> &gl) {
    bytes t; unsigned n = (unsigned)st.size();
    p16(t, 12); p16(t, 0); p32(t, 16 + 12 * n); p32(t, 0); p32(t, n);
    for (unsigned i = 0; i < n; ++i) { p32(t, st[i]); p32(t, en[i]); p32(t, gl[i]); }
    return t;
}

int main(int argc, char **argv) {
    Witness w(argv[1]);
    std::string unit = w.str("unit"), scen = w.str("scenario");
    int bad = 0;
    if (unit == "c13_fill4_cover" || scen == "first_segment_from_zero") {
        // a format 4 subtable whose first segment starts at U+0000: 0..0x7F -> glyphs 1..0x80
        bytes t4 = table4({0x0000, 0xFFFF}, {0x007F, 0xFFFF}, {1, 1}, {0, 0}, {});
        bad += sweep(&t4, 0, "format 4, first segment U+0000..U+007F");
        if (bad) REPLAY_FAIL("cached and direct cmap lookups disagree (%d code points) on a well-formed, sorted format 4 subtable whose first segment starts at U+0000", bad);
        REPLAY_OK("first segment from zero");
    }
    if (unit == "c13_fill12_cover" || scen == "fill12_from_zero") {
        // the real cache_subtable<format 12> on a subtable whose first group starts at U+0000: every code point of a group must be stored
        bytes t12 = table12({0x0000, 0x10000}, {0x007F, 0x1FFFF}, {1, 0x200});
        void *p = malloc(t12.size()); memcpy(p, t12.data(), t12.size());
        uint16 **blocks = grzeroalloc<uint16 *>(0x1100);
        bool ok = cache_subtable<TtfUtil::CmapSubtable12NextCodepoint, TtfUtil::CmapSubtable12Lookup>(blocks, p, 0x10FFFF);
        for (unsigned c = 0; ok && c < 0x80; ++c) {
            unsigned want = TtfUtil::CmapSubtable12Lookup(p, c, 0), got = blocks[0] ? blocks[0][c] : 0;
            if (got != want) { if (bad++ < 6) printf("cache_subtable<12>: entry of U+%04X is %u, CmapSubtable12Lookup gives %u\n", c, got, want); }
        }
        if (bad) REPLAY_FAIL("cache_subtable<format 12> skips a code point of the first group (group U+0000..U+007F -> glyphs 1.., %d entries wrong)", bad);
        REPLAY_OK("fill12 from zero");
    }
    if (unit == "c13_cached_ctor_bmp" || scen == "first_group_from_zero") {
        bytes t4 = table4({0x0020, 0xFFFF}, {0x007F, 0xFFFF}, {1, 1}, {0, 0}, {});
        bytes t12 = table12({0x0000, 0x10000}, {0x007F, 0x1FFFF}, {1, 0x200});
        bad += sweep(&t4, &t12, "format 4 maps U+0020..7F, format 12 has a group U+0000..U+007F");
        if (bad) REPLAY_FAIL("BMP code points that only the format 12 subtable maps: direct lookup (format 4) says unmapped, cached lookup returns the format 12 glyph (%d code points)", bad);
        REPLAY_OK("first group from zero");
    }
    if (unit == "c13_cached_ctor_last" || scen == "last_code_point") {
        bytes t4 = table4({0x0020, 0xFFFF}, {0x007F, 0xFFFF}, {1, 2}, {0, 0}, {});           // U+FFFF -> glyph 1
        bytes t12 = table12({0x10000}, {0x10FFFF}, {0x200});                                  // U+10FFFF -> a glyph
        bad += sweep(&t4, &t12, "U+FFFF and U+10FFFF mapped");
        if (bad) REPLAY_FAIL("cached and direct cmap lookups disagree (%d code points)", bad);
        REPLAY_OK("last code point");
    }
    if (unit == "c13_cached_ctor" || scen == "bmp_in_both") {
        // format 12 maps a BMP character differently from format 4: format 4 must win for the BMP in both paths
        bytes t4 = table4({0x0041, 0xFFFF}, {0x005A, 0xFFFF}, {(unsigned)(10 - 0x41) & 0xFFFF, 1}, {0, 0}, {});
        bytes t12 = table12({0x0041, 0x10000}, {0x005A, 0x100FF}, {500, 600});
        bad += sweep(&t4, &t12, "BMP characters in both subtables");
        if (bad) REPLAY_FAIL("BMP characters are not answered from the format 4 subtable by both lookup paths (%d code points)", bad);
        REPLAY_OK("bmp in both");
    }
    // ---- witness driven: a subtable from the verifier
    size_t len = (size_t)w.unum("w_len");
    if (len == 0 || len > 4096) REPLAY_OK("no usable witness (w_len=%zu)", len);
    bytes t(len);
    for (size_t i = 0; i < len; ++i) t[i] = (unsigned char)w.arr("w_b", (int)i, 0);
    unsigned c = (unsigned)w.unum("w_c"); int key = (int)w.num("w_key");
    unsigned fmt = len >= 2 ? g16(t, 0) : 0;
    if (fmt == 4 && wf4(t)) {
        t.resize(g16(t, 2));
        void *p = malloc(t.size()); memcpy(p, t.data(), t.size());                           // exact size
        if (!TtfUtil::CheckCmapSubtable4(p, (const char *)p + t.size())) REPLAY_FAIL("CheckCmapSubtable4 rejects a well-formed subtable");
        unsigned n = g16(t, 6) >> 1;
        if (key < 0 || (unsigned)key >= n) key = 0;
        unsigned got = TtfUtil::CmapSubtable4Lookup(p, c, key);
        if (sorted4(t)) {
            unsigned want = ref4(t, c);
            bool key_ok = key == 0 || (c <= g16(t, 14 + 2 * key) && (key == 0 || c > g16(t, 14 + 2 * (key - 1))));
            if (key_ok && got != want) REPLAY_FAIL("CmapSubtable4Lookup(U+%04X, key %d) = %u, OpenType rules give %u", c, key, got, want);
            bad += sweep(&t, 0, "witness format 4 subtable");
            if (bad) REPLAY_FAIL("witness subtable: %d code points wrong", bad);
        } else {
            // unsorted table: only the glyph formula for the segment chosen by the key can be compared
            if (key != 0) {
                unsigned st = g16(t, 16 + 2 * n + 2 * key), en = g16(t, 14 + 2 * key), want = 0;
                if (c >= st && c <= en) {
                    unsigned d = g16(t, 16 + 4 * n + 2 * key), ro = g16(t, 16 + 6 * n + 2 * key);
                    if (!ro) want = (c + d) & 0xFFFF;
                    else { size_t cell = (size_t)(c - st) + (ro >> 1) + 8 + 3 * n + key; if (2 * cell + 1 < t.size()) { unsigned v = g16(t, 2 * cell); want = v ? (v + d) & 0xFFFF : 0; } }
                }
                if (got != want) REPLAY_FAIL("CmapSubtable4Lookup(U+%04X, key %d) = %u, segment %d gives %u", c, key, got, key, want);
            }
        }
        free(p);
        REPLAY_OK("format 4 witness");
    }
    if (fmt == 12 && wf12(t)) {
        t.resize(g32(t, 4));
        void *p = malloc(t.size()); memcpy(p, t.data(), t.size());
        if (!TtfUtil::CheckCmapSubtable12(p, (const char *)p + t.size())) REPLAY_FAIL("CheckCmapSubtable12 rejects a well-formed subtable");
        unsigned got = TtfUtil::CmapSubtable12Lookup(p, c, 0), want = ref12(t, c);
        if (got != want) REPLAY_FAIL("CmapSubtable12Lookup(U+%04X) = %u, first group containing it gives %u", c, got, want);
        free(p);
        REPLAY_OK("format 12 witness");
    }
    REPLAY_OK("witness subtable is not well-formed (format %u)", fmt);
}
