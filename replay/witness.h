// replay/witness.h - reads the flattened witness written by lib/driver.py ("name=value" per line)
#pragma once
#include <cstdio>
#include <cstdlib>
#include <cstring>
#include <map>
#include <string>
struct Witness {
    std::map<std::string, std::string> kv;
    explicit Witness(const char *path) {
        FILE *f = fopen(path, "r");
        if (!f) { perror(path); exit(2); }
        char line[4096];
        while (fgets(line, sizeof line, f)) {
            char *eq = strchr(line, '=');
            if (!eq) continue;
            *eq = 0;
            std::string v(eq + 1);
            while (!v.empty() && (v.back() == '\n' || v.back() == '\r')) v.pop_back();
            kv[line] = v;
        }
        fclose(f);
    }
    bool has(const std::string &k) const { return kv.count(k) != 0; }
    std::string str(const std::string &k, const char *def = "") const { auto i = kv.find(k); return i == kv.end() ? def : i->second; }
    // cbmc prints integers as e.g. "3u", "-5", "3ul", "TRUE", "'a'" ...
    long long num(const std::string &k, long long def = 0) const {
        auto i = kv.find(k);
        if (i == kv.end()) return def;
        const std::string &s = i->second;
        if (s == "TRUE" || s == "true") return 1;
        if (s == "FALSE" || s == "false") return 0;
        if (s.size() >= 3 && s[0] == '\'') return (unsigned char)s[1];
        return strtoll(s.c_str(), nullptr, 0);
    }
    unsigned long long unum(const std::string &k, unsigned long long def = 0) const {
        auto i = kv.find(k);
        if (i == kv.end()) return def;
        return strtoull(i->second.c_str(), nullptr, 0);
    }
    long long arr(const std::string &base, int idx, long long def = 0) const {
        char b[256]; snprintf(b, sizeof b, "%s[%d]", base.c_str(), idx);
        return num(b, def);
    }
    double flt(const std::string &k, double def = 0) const {
        auto i = kv.find(k);
        if (i == kv.end()) return def;
        return strtod(i->second.c_str(), nullptr);
    }
};
#define REPLAY_FAIL(...) do { printf("REPLAY: CONFIRMED on the real code: "); printf(__VA_ARGS__); printf("\n"); exit(1); } while (0)
#define REPLAY_OK(...)   do { printf("REPLAY: not reproduced: "); printf(__VA_ARGS__); printf("\n"); exit(0); } while (0)
