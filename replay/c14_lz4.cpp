// replay for the C14 units: runs the REAL decoder of /repo/src/Decompressor.cpp (included textually so that the
// anonymous-namespace read_literal / read_sequence are reachable) on the verifier's witness, with exact-size heap buffers
// under ASan/UBSan, and evaluates the property natively against the reference decoder spec/lz4_ref.h (and, when
// liblz4.so.1 can be dlopen'ed, against LZ4_decompress_safe as an independent second opinion - informational).
#include "witness.h"
#include <dlfcn.h>
#include <vector>
#include <stdint.h>
#include "Decompressor.cpp"            // the real translation unit, found through -I<repo>/src
#include "../spec/lz4_ref.h"           // the oracle (same text the verifier uses)

typedef int (*lz4_safe_fn)(const char *, char *, int, int);
static lz4_safe_fn liblz4() {
    static void *h = dlopen("liblz4.so.1", RTLD_NOW);
    return h ? (lz4_safe_fn)dlsym(h, "LZ4_decompress_safe") : 0;
}
static std::vector<u8> bytes(const Witness &w, size_t n) {
    std::vector<u8> b(n);
    for (size_t i = 0; i < n; ++i) b[i] = (u8)w.arr("w_b", (int)i, 0);
    return b;
}
// exact-size heap copy: any access outside [p, p+n) is an ASan report (exit != 0 => confirmed)
static u8 *exact(const std::vector<u8> &b) { u8 *p = (u8 *)malloc(b.size() ? b.size() : 1); if (b.size()) memcpy(p, b.data(), b.size()); else { free(p); p = (u8 *)malloc(0); } return p; }

static void check_block(const std::vector<u8> &blk, size_t out_n, const char *what) {
    u8 *in = (u8 *)malloc(blk.size()); memcpy(in, blk.data(), blk.size());
    u8 *out = (u8 *)malloc(out_n ? out_n : 1), *ref = (u8 *)malloc(out_n ? out_n : 1), *ref2 = (u8 *)malloc(out_n ? out_n : 1);
    if (!out_n) { free(out); out = (u8 *)malloc(0); }
    memset(ref, 0, out_n ? out_n : 1); memset(ref2, 0, out_n ? out_n : 1);
    int r = lz4::decompress(in, blk.size(), out, out_n);                       // ASan aborts here on any out-of-range access
    lz4ref_result lenient = lz4_ref(in, blk.size(), ref, out_n, LZ4REF_LENIENT);
    lz4ref_result strict = lz4_ref(in, blk.size(), ref2, out_n, LZ4REF_STRICT);
    if (r < -1 || (r >= 0 && (size_t)r > out_n)) REPLAY_FAIL("%s: lz4::decompress returned %d for out_size %zu", what, r, out_n);
    if (r >= 0) {
        if (lenient.n != r) REPLAY_FAIL("%s: lz4::decompress returned %d bytes, the reference decoder (prefix mode) %ld", what, r, lenient.n);
        if (memcmp(out, ref, (size_t)r) != 0) REPLAY_FAIL("%s: decoded bytes differ from the reference decoder's", what);
    }
    // completeness: a valid encoding (strict reference accepts, exactly out_n bytes, last 5 bytes literals, >= 13 bytes, shrinking) must decode
    if (strict.n == (long)out_n && strict.last_ll >= 5 && blk.size() >= 13 && blk.size() < out_n && r != (int)out_n)
        REPLAY_FAIL("%s: valid LZ4 block of %zu bytes for %zu bytes of plaintext refused or truncated (returned %d)", what, blk.size(), out_n, r);
    if (lz4_safe_fn f = liblz4()) {
        std::vector<char> o3(out_n ? out_n : 1);
        int l = f((const char *)in, o3.data(), (int)blk.size(), (int)out_n);
        printf("info: lz4::decompress=%d reference(strict)=%ld reference(prefix)=%ld liblz4 LZ4_decompress_safe=%d\n", r, strict.n, lenient.n, l);
        if (r >= 0 && l >= 0 && (l != r || memcmp(out, o3.data(), (size_t)r) != 0)) REPLAY_FAIL("%s: liblz4 decodes the block to different bytes", what);
    }
    free(in); free(out); free(ref); free(ref2);
}

int main(int argc, char **argv) {
    Witness w(argv[1]);
    std::string unit = w.str("unit");
    if (unit == "c14_read_literal") {
        size_t n = (size_t)w.unum("w_n"), at = (size_t)w.unum("w_at"); u32 l = (u32)w.unum("w_l");
        if (n > 24) n = 24; if (at > n) at = n;
        std::vector<u8> b = bytes(w, n);
        u8 *buf = exact(b);
        u8 const *s = buf + at, *const e = buf + n;
        u32 r = read_literal(s, e, l);                                           // ASan: reads only [s,e)
        if (s < buf + at || s > e) REPLAY_FAIL("read_literal left s outside [old s, e]");
        size_t c = (size_t)(s - (buf + at));
        if (l != 15 || at == n) { if (r != l || c != 0) REPLAY_FAIL("read_literal(l=%u) consumed %zu bytes, returned %u", l, c, r); }
        else {
            if (c < 1) REPLAY_FAIL("read_literal(15) consumed nothing");
            u32 expect = 15u + 255u * (u32)(c - 1) + buf[at + c - 1];
            for (size_t i = 0; i + 1 < c; ++i) if (buf[at + i] != 0xff) REPLAY_FAIL("read_literal skipped a byte that is not 0xff");
            if (buf[at + c - 1] == 0xff && s != e) REPLAY_FAIL("read_literal stopped inside a 0xff run");
            if (r != expect) REPLAY_FAIL("read_literal returned %u, the length bytes add up to %u", r, expect);
        }
        REPLAY_OK("read_literal");
    }
    if (unit == "c14_read_sequence") {
        size_t n = (size_t)w.unum("w_n"), at = (size_t)w.unum("w_at");
        if (n > 24) n = 24; if (n < 6) n = 6; if (at >= n) at = n - 1;
        std::vector<u8> b = bytes(w, n);
        u8 *buf = exact(b);
        u8 const *src = buf + at, *const end = buf + n, *literal = 0; u32 ll = 0, ml = 0, md = 0;
        bool r = read_sequence(src, end, literal, ll, ml, md);                   // ASan: reads only [src,end)
        if (literal <= buf + at || literal > end) REPLAY_FAIL("read_sequence: literal run starts outside the input");
        if (r) {
            if (!(literal + ll + 2 <= src && src <= end - 6)) REPLAY_FAIL("read_sequence returned true but the sequence does not leave MINCODA bytes");
            if (md != (u32)(literal[ll] | (literal[ll + 1] << 8))) REPLAY_FAIL("read_sequence: match_dist is not the little-endian offset");
            if (ml < 4) REPLAY_FAIL("read_sequence: match_len < MINMATCH");
        }
        REPLAY_OK("read_sequence");
    }
    if (unit == "c14_lz4_safety" || unit == "c14_lz4_ref_sound" || unit == "c14_lz4_ref_complete") {
        size_t in_n = (size_t)w.unum("w_in_n"), out_n = (size_t)w.unum("w_out_n");
        if (in_n > 24) in_n = 24; if (out_n > 4096) out_n = 4096;
        check_block(bytes(w, in_n), out_n, unit.c_str());
        REPLAY_OK("block decoded like the reference (or refused)");
    }
    printf("unknown unit %s\n", unit.c_str());
    return 0;
}
