// replay for the C07/C02 opcode units: loads a small program through the REAL bytecode loader (Machine::Code) and runs
// it on the REAL interpreter (library built from /repo with ASan/UBSan); compares with the opcode specification.
#include "witness.h"
#include <graphite2/Font.h>
#include <climits>
#include <vector>
#include "inc/Code.h"
#include "inc/Rule.h"
#include "inc/Silf.h"
#include "inc/Face.h"
#include "inc/Segment.h"
using namespace graphite2;
using namespace vm;
typedef Machine::Code Code;

static void push_long(std::vector<byte> &p, int32 v) { p.push_back(PUSH_LONG); p.push_back(byte(uint32(v) >> 24)); p.push_back(byte(uint32(v) >> 16)); p.push_back(byte(uint32(v) >> 8)); p.push_back(byte(v)); }

int main(int argc, char **argv) {
    Witness w(argv[1]);
    std::string unit = w.str("unit");
    size_t us = unit.find('_', 4);                     // c07_<env>_<op>
    std::string op = us == std::string::npos ? "" : unit.substr(us + 1);
    int32 a = (int32)w.num("w_a"), b = (int32)w.num("w_b"), c = (int32)w.num("w_c");
    byte p[4]; for (int i = 0; i < 4; ++i) p[i] = (byte)w.arr("w_p", i);
    struct { const char *n; opcode o; int pops; int psz; } tab[] = {
        {"nop",NOP,0,0},{"push_byte",PUSH_BYTE,0,1},{"push_byte_u",PUSH_BYTEU,0,1},{"push_short",PUSH_SHORT,0,2},{"push_short_u",PUSH_SHORTU,0,2},{"push_long",PUSH_LONG,0,4},
        {"add",ADD,2,0},{"sub",SUB,2,0},{"mul",MUL,2,0},{"div_",DIV,2,0},{"min_",MIN_,2,0},{"max_",MAX_,2,0},{"neg",NEG,1,0},{"trunc8",TRUNC8,1,0},{"trunc16",TRUNC16,1,0},
        {"cond",COND,3,0},{"and_",AND,2,0},{"or_",OR,2,0},{"not_",NOT,1,0},{"equal",EQUAL,2,0},{"not_eq_",NOT_EQ,2,0},{"less",LESS,2,0},{"gtr",GTR,2,0},{"less_eq",LESS_EQ,2,0},{"gtr_eq",GTR_EQ,2,0},
        {"pop_ret",POP_RET,1,0},{"ret_zero",RET_ZERO,0,0},{"ret_true",RET_TRUE,0,0},{"push_proc_state",PUSH_PROC_STATE,0,1},{"push_version",PUSH_VERSION,0,0},
        {"band",BITAND,2,0},{"bor",BITOR,2,0},{"bnot",BITNOT,1,0},{"setbits",BITSET,1,4} };
    int k = -1; for (unsigned i = 0; i < sizeof tab / sizeof *tab; ++i) if (op == tab[i].n) k = i;
    if (k < 0) { printf("unknown opcode unit %s\n", unit.c_str()); return 0; }
    std::vector<byte> prog;
    if (tab[k].pops >= 3) push_long(prog, c);
    if (tab[k].pops >= 2) push_long(prog, b);
    if (tab[k].pops >= 1) push_long(prog, a);
    if (tab[k].o == NOP) push_long(prog, a);
    bool is_exit = tab[k].o == POP_RET || tab[k].o == RET_ZERO || tab[k].o == RET_TRUE;
    prog.push_back(tab[k].o);
    for (int i = 0; i < tab[k].psz; ++i) prog.push_back(p[i]);
    if (!is_exit) prog.push_back(POP_RET);
    // specification value
    long long e = 0; bool dies = false;
    uint32 ua = uint32(a), ub = uint32(b);
    uint16 m = uint16((p[0] << 8) | p[1]), v = uint16((p[2] << 8) | p[3]);
    switch (tab[k].o) {
      case NOP: e = a; break; case PUSH_BYTE: e = int8(p[0]); break; case PUSH_BYTEU: e = p[0]; break;
      case PUSH_SHORT: e = int16(uint16((p[0] << 8) | p[1])); break; case PUSH_SHORTU: e = uint16((p[0] << 8) | p[1]); break;
      case PUSH_LONG: e = int32((uint32(p[0]) << 24) | (uint32(p[1]) << 16) | (uint32(p[2]) << 8) | p[3]); break;
      case ADD: e = int32(ub + ua); break; case SUB: e = int32(ub - ua); break; case MUL: e = int32(ub * ua); break;
      case DIV: if (a == 0 || (b == INT_MIN && a == -1)) dies = true; else e = b / a; break;
      case MIN_: e = a < b ? a : b; break; case MAX_: e = a > b ? a : b; break; case NEG: e = int32(0u - ua); break;
      case TRUNC8: e = ua & 0xFF; break; case TRUNC16: e = ua & 0xFFFF; break; case COND: e = c ? b : a; break;
      case AND: e = (b && a); break; case OR: e = (b || a); break; case NOT: e = !a; break; case EQUAL: e = b == a; break; case NOT_EQ: e = b != a; break;
      case LESS: e = b < a; break; case GTR: e = b > a; break; case LESS_EQ: e = b <= a; break; case GTR_EQ: e = b >= a; break;
      case POP_RET: e = a; break; case RET_ZERO: e = 0; break; case RET_TRUE: e = 1; break; case PUSH_PROC_STATE: e = 1; break; case PUSH_VERSION: e = 0x00030000; break;
      case BITAND: e = int32(ub & ua); break; case BITOR: e = int32(ub | ua); break; case BITNOT: e = int32(~ua); break;
      case BITSET: e = int32((ua & ~uint32(m)) | v); break; default: break; }
    gr_face *face = gr_make_file_face("tests/fonts/Padauk.ttf", gr_face_default);
    if (!face) { printf("no font\n"); return 0; }
    Silf silf;
    Code code(false, &prog[0], &prog[0] + prog.size(), 0, 0, silf, *face, PASS_TYPE_UNKNOWN);
    if (!code) REPLAY_OK("program not accepted by the loader (status %d)", (int)code.status());
    Segment seg(1, face, 0, 0);
    Slot s1;
    SlotMap smap(seg, 0, 0);
    Machine mach(smap);
    smap.pushSlot(&s1);
    slotref *map = smap.begin();
    int32 ret = code.run(mach, map);            // UBSan aborts on undefined behaviour inside an opcode
    if (dies) { if (mach.status() != Machine::died_early) REPLAY_FAIL("%s(%d,%d) must fail safely, status %d ret %d", op.c_str(), b, a, (int)mach.status(), ret); REPLAY_OK("died early as specified"); }
    if (mach.status() != Machine::finished) REPLAY_FAIL("%s: machine status %d", op.c_str(), (int)mach.status());
    if (ret != (int32)e) REPLAY_FAIL("%s(c=%d,b=%d,a=%d,params %02X %02X %02X %02X) returned %d, specification value %lld", op.c_str(), c, b, a, p[0], p[1], p[2], p[3], ret, e);
    REPLAY_OK("%s agrees with the specification", op.c_str());
}
