// replay for the c18_name_langid_e2e_defect_<K> units (spec/c18_namector.c): builds the witness 'name' table in an exact-size heap
// block, runs the REAL NameTable constructor + getLanguageId of /repo/src/NameTable.cpp (ASan/UBSan build: an over-read of the
// private copy aborts the process with the sanitizer report) and evaluates the over-read condition natively as well.
#include "witness.h"
#include <vector>
#include <graphite2/Segment.h>
#include "inc/Main.h"
#include "inc/NameTable.h"
using namespace graphite2;
int main(int argc, char **argv) {
    if (argc < 2) { printf("usage: name witness.txt\n"); return 2; }
    Witness w(argv[1]);
    std::string unit = w.str("unit");
    size_t p = unit.size(); while (p > 0 && isdigit((unsigned char)unit[p - 1])) --p;
    size_t K = p < unit.size() ? (size_t)atoi(unit.c_str() + p) : 19;
    unsigned char *blob = (unsigned char *)malloc(K);
    for (size_t i = 0; i < K; ++i) blob[i] = (unsigned char)(w.arr("w_b", (int)i) & 0xFF);
    size_t n = (size_t)w.num("w_n"); if (n > 2) n = 2;
    char *loc = (char *)malloc(n + 1);
    for (size_t i = 0; i < n; ++i) { loc[i] = (char)w.arr("w_loc", (int)i); if (!loc[i]) loc[i] = 'a'; }
    loc[n] = 0;
    const unsigned format = K >= 2 ? (blob[0] << 8 | blob[1]) : 0, count = K >= 4 ? (blob[2] << 8 | blob[3]) : 0, so = K >= 6 ? (blob[4] << 8 | blob[5]) : 0;
    const bool accepted = K > 18 && 6 + 12 * (size_t)count < K && so < K;
    const bool overread = accepted && format == 1 && 6 + 12 * (size_t)count + 2 > K;
    if (overread) printf("name table of %zu bytes, format 1, count %u, string_offset %u: accepted by the constructor (needs length > %zu); getLanguageId reads 2 bytes at offset %zu\n",
                         K, count, so, 6 + 12 * (size_t)count, 6 + 12 * (size_t)count);
    fflush(stdout);
    NameTable *nt = new NameTable(blob, K, 3, 1);
    free(blob);
    unsigned id = nt->getLanguageId(loc);          // ASan: heap-buffer-overflow READ of size 1, 0 bytes to the right of the K-byte region
    delete nt; free(loc);
    if (overread) REPLAY_FAIL("getLanguageId read the language-tag count one byte past the %zu-byte table copy (result 0x%X)", K, id);
    REPLAY_OK("language id 0x%X, no access outside the table", id);
}
