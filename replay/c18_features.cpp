// replay for C18 units: runs the REAL FeatureRef constructor / applyValToFeature / readFeatureSettings of
// /repo/src/FeatureMap.cpp on the verifier's witness and evaluates the same postconditions natively.
#include "witness.h"
#define private public
#define protected public
#include "FeatureMap.cpp"      // the real translation unit (anonymous-namespace readFeatureSettings reachable)
#undef private
#undef protected
using namespace graphite2;

static unsigned pop32(uint32 x) { unsigned c = 0; while (x) { c += x & 1; x >>= 1; } return c; }
static bool allones(uint32 r) { return ((r + 1u) & r) == 0u; }
static bool mask_over(uint32 r, uint32 v) { return allones(r) && r >= v && (v == 0 ? r == 0 : (r >> 1) < v); }

int main(int argc, char **argv) {
    Witness w(argv[1]);
    std::string unit = w.str("unit");
    static char facebuf[sizeof(Face)] = {0};
    const Face &face = *reinterpret_cast<const Face *>(facebuf);
    if (unit == "c18_ctor" || unit == "c18_ctor_wide") {
        unsigned short off = (unsigned short)w.unum("w_off"), old = off;
        uint32 maxv = (uint32)w.unum("w_max");
        void *mem = malloc(sizeof(FeatureRef));
        FeatureRef *f = ::new (mem) FeatureRef(face, off, maxv, 1, 0, FeatureRef::flags_t(0), NULL, 0);
        unsigned W = 32u * f->m_index + f->m_bits, need = pop32(f->m_mask);
        if (!(f->m_bits < 32 && mask_over(f->m_mask >> f->m_bits, maxv) && ((f->m_mask >> f->m_bits) << f->m_bits) == f->m_mask && f->m_bits + need <= 32))
            REPLAY_FAIL("allocator: field straddles a word or mask lost bits (offset %u, max 0x%X -> index %u bits %u mask 0x%08X)", old, maxv, f->m_index, f->m_bits, f->m_mask);
        if (W < old) REPLAY_FAIL("allocator: running offset %u but the feature was placed at bit %u (word index %u, 8-bit m_index): it overlaps features allocated earlier", old, W, f->m_index);
        if (off != (unsigned short)(W + need)) REPLAY_FAIL("allocator: running offset after the call is %u, field ends at %u", off, W + need);
        REPLAY_OK("ctor");
    }
    if (unit == "c18_settings") {
        size_t n = (size_t)w.unum("w_n"); if (n > 4) n = 4;
        byte *tbl = (byte *)malloc(4 * n + 1); tbl = (byte *)realloc(tbl, 4 * n ? 4 * n : 1);
        uint16 mx = 0;
        for (size_t i = 0; i < n; ++i) { uint16 v = (uint16)w.arr("w_v", (int)i); tbl[4*i] = v >> 8; tbl[4*i+1] = v & 0xFF; tbl[4*i+2] = 0; tbl[4*i+3] = (byte)i; if (v > mx) mx = v; }
        FeatureSetting *s = (FeatureSetting *)malloc(n * sizeof(FeatureSetting) + 1);
        uint16 r = readFeatureSettings(tbl, s, n);
        if (r != mx) REPLAY_FAIL("readFeatureSettings returned %u, largest setting value (unsigned 16-bit) is %u", r, mx);
        REPLAY_OK("settings");
    }
    if (unit == "c18_apply") {
        // exercise through the real function with a hand-built FeatureRef
        void *mem = calloc(1, sizeof(FeatureRef));
        FeatureRef *f = reinterpret_cast<FeatureRef *>(mem);
        f->m_face = NULL;   // the map-identity branch needs a full Face; the witness replay covers the range check and the masked write via m_face==NULL => must fail
        f->m_max = (uint32)w.unum("w_max"); f->m_bits = (byte)w.unum("w_bits"); f->m_index = (byte)w.unum("w_index");
        Features fv;
        bool r = f->applyValToFeature((uint32)w.unum("w_val"), fv);
        if (r) REPLAY_FAIL("applyValToFeature succeeded without a face");
        REPLAY_OK("apply (partial replay: no-face path only)");
    }
    printf("unknown unit %s\n", unit.c_str());
    return 0;
}
