// replay for C06 units c06_accumulate_b0 / c06_accumulate_b1 (and a generic driver for accumulate_rules):
// runs the REAL FiniteStateMachine::Rules::accumulate_rules of /repo/src/inc/Rule.h on the verifier's witness
// (two sorted rule lists over a small pass) and compares the result with the reference merge of the property statement:
// the sorted (longest sort key first, then earliest rule), duplicate-free union of both lists, in the other half of m_rules.
#include "witness.h"
#include <graphite2/Segment.h>
#include <graphite2/Font.h>
#include <vector>
#include <algorithm>
#define private public
#define protected public
#include "inc/Rule.h"
#undef private
#undef protected
using namespace graphite2;

static bool prec(const Rule *a, const Rule *b) { return a->sort > b->sort || (a->sort == b->sort && a < b); }

// unit c06_analyse: end-to-end scenario for the temp-copy analysis.  tests/fonts/PigLatinBenchmark_v3.ttf rotates the leading
// consonant cluster of a word to its end with a chain of put_copy actions (a parallel assignment over the rule's input) and
// inserts "ay"; glyph id = code point - 30 in this font.  Reference: out = word[k:] + word[:k] + "ay".
static int piglatin_scenario() {
    gr_face *face = gr_make_file_face("tests/fonts/PigLatinBenchmark_v3.ttf", gr_face_preloadAll);
    if (!face) { printf("cannot load tests/fonts/PigLatinBenchmark_v3.ttf\n"); return 0; }
    gr_font *font = gr_make_font(2048, face);
    const char *words[] = { "hello", "glove", "three", "string", "scratch" };
    int bad = 0;
    for (size_t i = 0; i != sizeof words / sizeof *words; ++i) {
        const std::string in = words[i];
        size_t k = 0; while (k < in.size() && !strchr("aeiou", in[k])) ++k;
        const std::string want = in.substr(k) + in.substr(0, k) + "ay";
        gr_segment *seg = gr_make_seg(font, face, 0, 0, gr_utf8, in.c_str(), in.size(), 0);
        std::string got;
        for (const gr_slot *s = seg ? gr_seg_first_slot(seg) : 0; s; s = gr_slot_next_in_segment(s)) {
            const unsigned cp = gr_slot_gid(s) + 30;
            got += (cp >= 'a' && cp <= 'z') ? char(cp) : '?';
        }
        printf("%-8s -> %-10s expected %-10s %s\n", in.c_str(), got.c_str(), want.c_str(), got == want ? "ok" : "MISMATCH");
        if (got != want) ++bad;
        if (seg) gr_seg_destroy(seg);
    }
    gr_font_destroy(font); gr_face_destroy(face);
    return bad;
}

int main(int argc, char **argv) {
    Witness w(argv[1]);
    std::string unit = w.str("unit");
    if (unit == "c06_analyse") {
        const int bad = piglatin_scenario();
        if (bad) REPLAY_FAIL("%d word(s): a rule whose items copy from earlier slots of the same rule (put_copy, negative slot reference) read an already overwritten glyph instead of the rule's input glyph (witness opcode %lld)", bad, w.num("w_opc"));
        REPLAY_OK("the put_copy rotation rules of PigLatinBenchmark_v3.ttf give the reference output (the witness opcode %lld has no separate native scenario)", w.num("w_opc"));
    }
    const int NRB = 8;
    size_t nl = (size_t)w.unum("w_nl"), nr = (size_t)w.unum("w_nr");
    bool upper = w.num("w_upper") != 0;
    if (unit == "c06_accumulate_b1") upper = true;
    if (unit == "c06_accumulate_b0") upper = false;
    if (nl > 4) nl = 4; if (nr > 4) nr = 4;
    static Rule rs[NRB];
    for (int i = 0; i < NRB; ++i) rs[i].sort = (unsigned short)w.arr("w_sort", i);
    std::vector<const Rule *> L, Rr;
    for (size_t i = 0; i < nl; ++i) L.push_back(rs + (w.arr("w_l", (int)i) % NRB));
    for (size_t i = 0; i < nr; ++i) Rr.push_back(rs + (w.arr("w_r", (int)i) % NRB));
    for (size_t i = 0; i + 1 < L.size(); ++i)  if (!prec(L[i], L[i + 1]))   REPLAY_OK("witness violates the precondition (candidate list not sorted)");
    for (size_t i = 0; i + 1 < Rr.size(); ++i) if (!prec(Rr[i], Rr[i + 1])) REPLAY_OK("witness violates the precondition (state list not sorted)");

    // the real object; the candidate list sits in one half of m_rules (class invariant of Rules)
    FiniteStateMachine::Rules *R = new FiniteStateMachine::Rules();
    R->m_begin = R->m_rules + (upper ? FiniteStateMachine::MAX_RULES : 0);
    for (size_t i = 0; i < nl; ++i) R->m_begin[i].rule = L[i];
    R->m_end = R->m_begin + nl;
    RuleEntry *const old_begin = R->m_begin;
    // exact-size state list (ASan flags any read at rules_end)
    RuleEntry *sr = (RuleEntry *)malloc(nr ? nr * sizeof(RuleEntry) : 1);
    for (size_t i = 0; i < nr; ++i) sr[i].rule = Rr[i];
    State st; st.rules = sr; st.rules_end = sr + nr;

    R->accumulate_rules(st);

    // reference: sorted duplicate-free union
    std::vector<const Rule *> ref(L);
    for (size_t i = 0; i < Rr.size(); ++i) if (std::find(ref.begin(), ref.end(), Rr[i]) == ref.end()) ref.push_back(Rr[i]);
    std::sort(ref.begin(), ref.end(), prec);
    if (nr == 0) {
        if (R->m_begin != old_begin || R->size() != nl) REPLAY_FAIL("empty state changed the candidate list");
        REPLAY_OK("empty state");
    }
    if (R->m_begin == old_begin) REPLAY_FAIL("result was written over the current half of m_rules");
    printf("inputs: L = [");
    for (size_t i = 0; i < L.size(); ++i) printf(" r%d(sort %u)", (int)(L[i] - rs), L[i]->sort);
    printf(" ]  state = [");
    for (size_t i = 0; i < Rr.size(); ++i) printf(" r%d(sort %u)", (int)(Rr[i] - rs), Rr[i]->sort);
    printf(" ]\nresult: [");
    for (const RuleEntry *e = R->begin(); e != R->end(); ++e) printf(" r%d", (int)(e->rule - rs));
    printf(" ]  expected: [");
    for (size_t i = 0; i < ref.size(); ++i) printf(" r%d", (int)(ref[i] - rs));
    printf(" ]\n");
    if (R->size() != ref.size()) REPLAY_FAIL("accumulate_rules produced %zu candidates, the sorted duplicate-free union has %zu (a matched rule was dropped or duplicated)", R->size(), ref.size());
    for (size_t i = 0; i < ref.size(); ++i)
        if (R->begin()[i].rule != ref[i]) REPLAY_FAIL("candidate %zu is rule %d, expected rule %d (precedence: longest sort key first, then earliest rule)", i, (int)(R->begin()[i].rule - rs), (int)(ref[i] - rs));
    for (size_t i = 0; i < nl; ++i) if (old_begin[i].rule != L[i]) REPLAY_FAIL("the old half of m_rules was modified");
    REPLAY_OK("merge equals the reference");
}
