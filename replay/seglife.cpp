// replay for c03_setglyph / c03_setglyph_strict: runs the REAL Slot::setGlyph (through the real Segment::appendSlot) and the real
// gr_slot_gid on a real face (Padauk.ttf) in which ONE glyph object is replaced by a glyph whose pseudo-glyph attribute has the
// witness value relative to numGlyphs (attribute values come unchecked from the font's Glat table, so a font can carry any value).
// witness: w_gid (requested id), w_ng (number of glyphs in the verifier's model), w_attr (pseudo attribute of that glyph).
// The real face has N glyphs; the witness is mapped by keeping the offsets to the glyph count: attr_real = N + (w_attr - w_ng).
#include "witness.h"
#include <graphite2/Font.h>
#include <graphite2/Segment.h>
#include <vector>
#include <utility>
#define private public
#include "inc/Face.h"
#include "inc/GlyphCache.h"
#include "inc/GlyphFace.h"
#include "inc/Segment.h"
#undef private
using namespace graphite2;
int main(int argc, char **argv) {
    Witness w(argv[1]);
    long long wg = w.num("w_gid"), wn = w.num("w_ng"), wa = w.num("w_attr");
    gr_face *face = gr_make_file_face("tests/fonts/Padauk.ttf", gr_face_preloadGlyphs);
    if (!face) { printf("no font\n"); return 0; }
    const long long N = gr_face_n_glyphs(face);
    if (!(wg < wn)) REPLAY_OK("requested id is not a real glyph: clause does not apply");
    long long attr = N + (wa - wn);
    if (attr < 0 || attr > 0xFFFF) REPLAY_OK("attribute offset not representable on this face");
    const uint16 gid = 5;                                    // any real glyph of the face
    Segment seg(1, face, 0, 0);
    Features *f = face->theSill().cloneFeatures(0); seg.addFeatures(*f);
    const uint8 aPseudo = seg.silf()->aPseudo();
    std::vector<std::pair<uint16, uint16> > kv;
    kv.push_back(std::make_pair(uint16(aPseudo), uint16(attr)));
    const GlyphFace *old = face->glyphs().glyphSafe(gid);
    if (!old) { printf("glyph not loadable\n"); return 0; }
    GlyphFace *g = new GlyphFace(old->theBBox(), old->theAdvance(), kv.begin(), kv.end());
    const_cast<const GlyphFace **>(face->glyphs()._glyphs)[gid] = g;
    seg.appendSlot(0, 'a', gid, 0, 0);                       // real newSlot + real Slot::setGlyph
    const gr_slot *s = gr_seg_first_slot(static_cast<gr_segment *>(&seg));
    if (!s) { printf("no slot\n"); return 0; }
    unsigned got = gr_slot_gid(s);
    const_cast<const GlyphFace **>(face->glyphs()._glyphs)[gid] = old;
    delete f;
    if (got >= (unsigned)N)
        REPLAY_FAIL("glyph %u requested on a face of %lld glyphs, pseudo-glyph attribute %lld: gr_slot_gid returns %u >= gr_face_n_glyphs = %lld", gid, N, attr, got, N);
    REPLAY_OK("gr_slot_gid = %u < %lld (attribute %lld)", got, N, attr);
}
