// replay for the C17 units: runs the REAL Zones / Zones::Exclusion / Vector<Exclusion> code of /repo/src on the verifier's
// witness (floats are carried as IEEE-754 bit patterns) and evaluates the same pre/postconditions natively.  The program is
// linked against an ASan/UBSan build, so a use of freed vector storage aborts the run (= confirmed).
#include "witness.h"
#include <cmath>
#include <cstring>
#include <cstdint>
#include <vector>
#define private public
#define protected public
#include "Intervals.cpp"        // the real translation unit (Zones::Exclusion and the private members become reachable)
#undef private
#undef protected
using namespace graphite2;

static float fbits(const Witness &w, const std::string &k) { uint32_t u = (uint32_t)w.unum(k); float f; memcpy(&f, &u, 4); return f; }
static float fbits(const Witness &w, const std::string &base, int i) { char b[64]; snprintf(b, sizeof b, "%s[%d]", base.c_str(), i); return fbits(w, b); }
static bool fin(float f) { return std::isfinite(f); }

#include <type_traits>
// Zones::Exclusion is a private member type (default access of `class`); reach it through the public iterator typedef
typedef std::remove_const<std::remove_pointer<Zones::const_iterator>::type>::type Excl;
static size_t zsize(const Zones &z) { return z._exclusions.size(); }
// sorted, disjoint, non-empty intervals inside [_pos,_posm]
static bool zones_wf(const Zones &z)
{
    float prev = z._pos;
    for (size_t k = 0; k < zsize(z); ++k) { const Excl &e = z._exclusions[k]; if (!(prev <= e.x && e.x < e.xm)) return false; prev = e.xm; }
    return zsize(z) == 0 || prev <= z._posm;
}
static bool zones_covers(const Zones &z, float p)
{
    for (size_t k = 0; k < zsize(z); ++k) { const Excl &e = z._exclusions[k]; if (e.x <= p && p <= e.xm) return true; }
    return false;
}
static bool cost_wf(const Zones &z)
{
    for (size_t k = 0; k < zsize(z); ++k) { const Excl &e = z._exclusions[k]; if (!(e.sm > 0) || std::isnan(e.c) || std::isnan(e.smx)) return false; }
    return true;
}
// an interval set with exactly `cap` slots of storage holding the witness intervals
static void build(Zones &z, const Witness &w, size_t cap)
{
    size_t n = (size_t)w.unum("w_n");
    if (n > cap) n = cap;
    z._exclusions.~Vector();
    new (&z._exclusions) Vector<Excl>();
    z._exclusions.reserve(cap);                      // capacity is exactly cap (realloc(cap * sizeof))
    for (size_t k = 0; k < n; ++k) {
        Excl e(fbits(w, "w_x", (int)k), fbits(w, "w_xm", (int)k), fbits(w, "w_sm", (int)k), fbits(w, "w_smx", (int)k), fbits(w, "w_c", (int)k));
        z._exclusions.push_back(e);
    }
    z._pos = fbits(w, "w_pos"); z._posm = fbits(w, "w_posm");
}
static void dump(const Zones &z)
{
    printf("  bounds [%g, %g]:", z._pos, z._posm);
    for (size_t k = 0; k < zsize(z); ++k) printf(" [%g, %g]", z._exclusions[k].x, z._exclusions[k].xm);
    printf("\n");
}

int main(int argc, char **argv)
{
    Witness w(argv[1]);
    const std::string unit = w.str("unit");
    const size_t cap = unit.size() > 3 && unit.substr(unit.size() - 3) == "_c4" ? 4 : (unit == "c17_closest" ? 6 : 8);

    if (unit == "c17_excl_ops") {
        const float x = fbits(w, "w_x"), xm = fbits(w, "w_xm"), p = fbits(w, "w_p");
        Excl e(x, xm, 1, 0, 0);
        if (fin(x) && fin(xm) && fin(p)) {
            const unsigned oc = e.outcode(p), want = ((p >= xm) ? 2u : 0u) | ((p < x) ? 1u : 0u);
            if (oc != want) REPLAY_FAIL("Exclusion[%g,%g].outcode(%g) = %u, position code is %u", x, xm, p, oc, want);
        }
        if (!std::isnan(x) && !std::isnan(xm) && !std::isnan(p)) {
            Excl l = e.split_at(p);
            if (!(l.x == x && l.xm == p && e.x == p && e.xm == xm)) REPLAY_FAIL("split_at(%g) of [%g,%g] gives [%g,%g] and [%g,%g]", p, x, xm, l.x, l.xm, e.x, e.xm);
            Excl r(1, 2, 3, 4, 5), a(1, 2, 0.5f, 1, 1);
            r += a;
            if (!(r.x == 1 && r.xm == 2 && r.sm == 3.5f && r.smx == 5 && r.c == 6)) REPLAY_FAIL("operator+= changed the bounds or did not add the cost terms");
        }
        REPLAY_OK("Exclusion operations");
    }
    if (unit == "c17_test_position") {
        Excl e(fbits(w, "w_x"), fbits(w, "w_xm"), fbits(w, "w_sm"), fbits(w, "w_smx"), fbits(w, "w_c"));
        const float o = fbits(w, "w_origin");
        if (!(e.x <= e.xm) || std::isnan(e.sm) || e.sm == 0 || !fin(e.smx) || !fin(o)) REPLAY_OK("precondition of test_position not met by the witness");
        const float r = e.test_position(o);
        if (!(e.x <= r && r <= e.xm)) REPLAY_FAIL("test_position(%g) of [%g,%g] (sm %g smx %g) offers %g, outside the interval", o, e.x, e.xm, e.sm, e.smx, r);
        REPLAY_OK("test_position");
    }

    Zones z;
    if (unit == "c17_degenerate_axis") {
        // finding: an axis whose bounds coincide (limit rectangle of zero width) can never be excluded
        const float P = fbits(w, "w_pos"), a = fbits(w, "w_a"), b = fbits(w, "w_b");
        if (!(fin(P) && a < P && P < b)) REPLAY_OK("witness is not the degenerate case");
        z.initialise<XY>(P, P, 0, 0, 0);
        z.exclude(a, b);
        float cost = -2; const float r = z.closest(P, cost);
        if (cost >= 0) REPLAY_FAIL("axis [%g,%g]: after exclude(%g,%g) closest() still offers %g with cost %g (ShiftCollider::resolve would clear the collision flag)", P, P, a, b, r, cost);
        REPLAY_OK("degenerate axis excluded");
    }
    build(z, w, cap);
    const float a = fbits(w, "w_a"), b = fbits(w, "w_b"), pt = fbits(w, "w_pt");
    if (!(fin(z._pos) && fin(z._posm) && z._pos < z._posm && zones_wf(z))) REPLAY_OK("witness set is not a well-formed interval set (precondition)");

    if (unit == "c17_remove_c8" || unit == "c17_remove_c4" || unit == "c17_exclude_margins") {
        if (!cost_wf(z) || std::isnan(a) || std::isnan(b) || std::isnan(pt)) REPLAY_OK("precondition not met");
        const bool cov0 = zones_covers(z, pt);
        printf("before:"); dump(z);
        if (unit == "c17_exclude_margins") {
            z._margin_len = fbits(w, "w_mlen"); z._margin_weight = fbits(w, "w_mwt");
            if (!fin(a) || !fin(b) || !fin(z._margin_len) || !fin(z._margin_weight) || z._margin_weight < 0) REPLAY_OK("precondition not met");
            z.exclude_with_margins(a, b, (int)w.num("w_axis"));
        } else
            z.remove(a, b);
        printf("after remove(%g, %g):", a, b); dump(z);
        const bool cov = zones_covers(z, pt);
        if (!zones_wf(z)) REPLAY_FAIL("interval set no longer sorted / disjoint / non-empty / in bounds");
        if (cov && a < pt && pt < b) REPLAY_FAIL("position %g lies in the excluded range (%g,%g) and is still offered", pt, a, b);
        if (cov && !cov0) REPLAY_FAIL("position %g was not offered before and is offered now", pt);
        if (cov0 && !(a <= pt && pt <= b) && !cov) REPLAY_FAIL("position %g outside [%g,%g] was free and is lost", pt, a, b);
        if (!cost_wf(z)) REPLAY_FAIL("a weight sum is no longer positive");
        REPLAY_OK("remove");
    }
    if (unit == "c17_insert_c8" || unit == "c17_insert_c4") {
        Excl e(a, b, fbits(w, "w_esm"), fbits(w, "w_esmx"), fbits(w, "w_ec"));
        if (!cost_wf(z) || std::isnan(a) || std::isnan(b) || std::isnan(pt) || !fin(e.sm) || !fin(e.smx) || !fin(e.c) || e.sm < 0) REPLAY_OK("precondition not met");
        const bool cov0 = zones_covers(z, pt);
        printf("before:"); dump(z);
        z.insert(e);
        printf("after insert [%g, %g]:", a, b); dump(z);
        if (!zones_wf(z)) REPLAY_FAIL("interval set no longer sorted / disjoint / non-empty / in bounds");
        if (zones_covers(z, pt) != cov0) REPLAY_FAIL("position %g: offered before = %d, after the weighted insert = %d", pt, (int)cov0, (int)!cov0);
        if (!cost_wf(z)) REPLAY_FAIL("a weight sum is no longer positive");
        REPLAY_OK("insert");
    }
    if (unit == "c17_closest") {
        for (size_t k = 0; k < zsize(z); ++k) { const Excl &e = z._exclusions[k]; if (std::isnan(e.sm) || e.sm == 0 || !fin(e.smx)) REPLAY_OK("precondition not met"); }
        if (!fin(a)) REPLAY_OK("precondition not met");
        float cost = -2; const float r = z.closest(a, cost);
        if (cost != -1 && !zones_covers(z, r)) REPLAY_FAIL("closest(%g) offers %g (cost %g), which lies in no free interval", a, r, cost);
        if (zsize(z) == 0 && cost != -1) REPLAY_FAIL("closest on an empty set reports cost %g", cost);
        REPLAY_OK("closest");
    }
    printf("no native replay for unit %s\n", unit.c_str());
    return 0;
}
