// API-level demonstration for the C18 finding D5 (FeatureRef::m_index is a byte): a font whose Feat table declares
// 300 features without settings (32 bits each).  Setting feature #258 must not change feature #1.
// Uses only the public C API; the backing font is tests/fonts/small.ttf with its Feat table replaced.
#include "witness.h"
#include <graphite2/Font.h>
#include <vector>
#include <cstdint>
static std::vector<uint8_t> g_font, g_feat;
static uint32_t rd32(const uint8_t *p) { return (uint32_t(p[0])<<24)|(uint32_t(p[1])<<16)|(uint32_t(p[2])<<8)|p[3]; }
static uint16_t rd16(const uint8_t *p) { return uint16_t((p[0]<<8)|p[1]); }
static void wr16(std::vector<uint8_t> &v, uint16_t x) { v.push_back(uint8_t(x>>8)); v.push_back(uint8_t(x)); }
static void wr32(std::vector<uint8_t> &v, uint32_t x) { wr16(v, uint16_t(x>>16)); wr16(v, uint16_t(x)); }
static const void *get_table(const void *, unsigned int name, size_t *len) {
    if (name == 0x46656174u) { *len = g_feat.size(); return g_feat.data(); }
    if (name == 0x53696C6Cu) { *len = 0; return 0; }
    const uint8_t *f = g_font.data(); const unsigned n = rd16(f + 4);
    for (unsigned i = 0; i < n; ++i) { const uint8_t *r = f + 12 + 16*i; if (rd32(r) == name) { *len = rd32(r + 12); return f + rd32(r + 8); } }
    *len = 0; return 0;
}
int main(int argc, char **argv) {
    FILE *fp = fopen("tests/fonts/small.ttf", "rb"); if (!fp) { printf("no font\n"); return 0; }
    int c; while ((c = fgetc(fp)) != EOF) g_font.push_back((uint8_t)c); fclose(fp);
    const unsigned N = 300;
    wr32(g_feat, 0x00020000); wr16(g_feat, N); wr16(g_feat, 0); wr32(g_feat, 0);
    for (unsigned i = 0; i < N; ++i) { wr32(g_feat, 1000 + i); wr16(g_feat, 0); wr16(g_feat, 0); wr32(g_feat, 12 + 16*N); wr16(g_feat, 0); wr16(g_feat, 300 + i); }
    gr_face_ops ops = { sizeof(gr_face_ops), get_table, NULL };
    gr_face *face = gr_make_face_with_ops(NULL, &ops, gr_face_default);
    if (!face) REPLAY_OK("the face is refused (no feature map with more than 255 words is built)");
    gr_feature_val *fv = gr_face_featureval_for_lang(face, 0);
    // set each of the last features in turn and look at every other feature
    for (unsigned i = 250; i < N; ++i) {
        const gr_feature_ref *fi = gr_face_find_fref(face, 1000 + i);
        if (!fi) continue;
        int ok = gr_fref_set_feature_value(fi, 0x1234, fv);
        if (!ok) continue;
        for (unsigned k = 0; k < N; ++k) {
            if (k == i) continue;
            const gr_feature_ref *fk = gr_face_find_fref(face, 1000 + k);
            unsigned v = fk ? gr_fref_feature_value(fk, fv) : 0;
            if (v != 0) REPLAY_FAIL("setting feature id %u to 0x1234 changed feature id %u from 0 to 0x%X", 1000 + i, 1000 + k, v);
        }
        gr_fref_set_feature_value(fi, 0, fv);
    }
    REPLAY_OK("features isolated");
}
