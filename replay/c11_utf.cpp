// replay for the C11 units: runs the REAL codec / gr_count_unicode_characters on the verifier's witness in exact-size
// heap buffers (ASan/UBSan) and evaluates the property against the reference decoder of spec/utf_ref.h.
#include "witness.h"
#include <graphite2/Segment.h>
#include "inc/UtfCodec.h"
using namespace graphite2;
#define VERIF_REPLAY
#ifdef REPLAY_LENIENT
#define REF_LENIENT_SURROGATES
#endif
#include "../spec/utf_ref.h"

template <typename CU> static ref_t REF(const CU *p, size_t a);
template <> ref_t REF<uint8>(const uint8 *p, size_t a)  { return ref8(p, a); }
template <> ref_t REF<uint16>(const uint16 *p, size_t a) { return ref16(p, a); }
template <> ref_t REF<uint32>(const uint32 *p, size_t a) { return ref32(p, a); }

template <typename CU, int N> static int run_get(const Witness &w) {
    size_t avail = (size_t)w.unum("w_avail", 1);
    if (avail < 1 || avail > 4) avail = 1;
    CU *b = (CU *)malloc(avail * sizeof(CU));
    for (size_t i = 0; i < avail; ++i) b[i] = (CU)w.arr("w_u", (int)i);
    int8 l = 0;
    uchar_t r = _utf_codec<N>::get(b, l);          // ASan aborts on an over-read
    ref_t e = REF<CU>(b, avail);
    if ((l > 0) != e.ok) REPLAY_FAIL("get: length %d but reference decoder says %s (first unit 0x%X, avail %zu)", l, e.ok ? "well-formed" : "ill-formed", (unsigned)b[0], avail);
    if (l > 0 && (r != e.usv || l != e.len)) REPLAY_FAIL("get: decoded U+%04X len %d, reference U+%04X len %d", r, l, e.usv, e.len);
    if (l <= 0 && r != 0xFFFD) REPLAY_FAIL("get: error without U+FFFD");
    if (l == 0 || (size_t)(l < 0 ? -l : l) > avail) REPLAY_FAIL("get: step %d outside 1..avail", l);
    if (N == 8) for (int i = 1; i < (l < 0 ? -l : l); ++i) if (!CONT(b[i])) REPLAY_FAIL("get: skips unit %d (0x%X) which is not a continuation byte", i, (unsigned)b[i]);
    if (N != 8 && l < -1) REPLAY_FAIL("get: skips more than the offending unit");
    REPLAY_OK("get");
}
template <typename CU, int N> static int run_validate(const Witness &w) {
    size_t n = (size_t)w.unum("w_n");
    if (n > 64) n = 64;
    CU *b = (CU *)malloc(n * sizeof(CU) + (n ? 0 : 1));
    for (size_t i = 0; i < n; ++i) b[i] = 'a';
    for (int k = 0; k < 4; ++k) if (n > (size_t)k) b[n - 1 - k] = (CU)w.arr("w_u", 3 - k);
    bool r = _utf_codec<N>::validate(b, b + n);
    // truncated tail per the reference: some suffix of <= 3 units starts a sequence the reference cannot complete for lack of units only
    bool trunc = false;
    for (size_t j = 1; j <= 3 && j <= n; ++j) {
        const CU *p = b + n - j;
        if (N == 8) { unsigned a = ANNOUNCE8(p[0]); bool allc = true; for (size_t i = 1; i < j; ++i) allc = allc && CONT(p[i]); if (a > j && allc) trunc = true; }
        if (N == 16 && j == 1 && p[0] >= 0xD800 && p[0] <= 0xDBFF) trunc = true;
    }
    if (r == trunc) REPLAY_FAIL("validate returned %d but the buffer %s in a truncated sequence", r, trunc ? "ends" : "does not end");
    REPLAY_OK("validate");
}
template <typename CU, gr_encform E> static int run_count(const Witness &w, bool nulmode) {
    size_t n = (size_t)w.unum("w_n");
    if (n > 6) n = 6;
    CU *b = (CU *)malloc((n + (nulmode ? 1 : 0)) * sizeof(CU) + 1);
    b = (CU *)realloc(b, (n + (nulmode ? 1 : 0)) * sizeof(CU) ? (n + (nulmode ? 1 : 0)) * sizeof(CU) : 1);
    for (size_t i = 0; i < n; ++i) b[i] = (CU)w.arr("w_u", (int)i);
    if (nulmode) b[n] = 0;
    size_t total = n + (nulmode ? 1 : 0);
    const void *err = (const void *)0x1;
    bool noerr = w.num("w_noerr") != 0;
    size_t r = gr_count_unicode_characters(E, b, nulmode ? NULL : b + n, noerr ? (const void **)0 : &err);    // ASan aborts on any read outside the buffer
    if (noerr) {   // without pError only the count can be observed
        size_t cnt0 = 0, pos0 = 0; while (pos0 < total) { ref_t e0 = REF<CU>(b + pos0, total - pos0); if (!e0.ok || e0.usv == 0) break; pos0 += e0.len; ++cnt0; }
        if (r > cnt0) REPLAY_FAIL("count %zu exceeds the %zu well-formed characters in the buffer (pError == NULL)", r, cnt0);
        REPLAY_OK("count without pError");
    }    // ASan aborts on any read outside the buffer
    // reference count
    size_t cnt = 0, pos = 0; bool ill = false; size_t illpos = 0;
    while (pos < total) { ref_t e = REF<CU>(b + pos, total - pos); if (!e.ok) { ill = true; illpos = pos; break; } if (e.usv == 0) break; pos += e.len; ++cnt; }
    if (err && !((const CU *)err >= b && (const CU *)err < b + total)) REPLAY_FAIL("*pError points outside the buffer");
    if (!nulmode) {
        // truncated tail => error, count 0
        bool trunc = false;
        for (size_t j = 1; j <= 3 && j <= n; ++j) {
            const CU *p = b + n - j;
            if (sizeof(CU) == 1) { unsigned a = ANNOUNCE8(p[0]); bool allc = true; for (size_t i = 1; i < j; ++i) allc = allc && CONT(p[i]); if (a > j && allc) trunc = true; }
            if (sizeof(CU) == 2 && j == 1 && p[0] >= 0xD800 && p[0] <= 0xDBFF) trunc = true;
        }
        if (trunc) { if (!err) REPLAY_FAIL("buffer ends in a truncated sequence but no error reported"); if (r > cnt) REPLAY_FAIL("count %zu exceeds well-formed prefix %zu", r, cnt); REPLAY_OK("truncated tail reported"); }
    }
    if (ill && !err) REPLAY_FAIL("ill-formed text (unit %zu) but *pError == NULL, count %zu", illpos, r);
    if (!ill && err) REPLAY_FAIL("well-formed text but an error was reported");
    if (r != cnt) REPLAY_FAIL("count %zu, reference count %zu", r, cnt);
    REPLAY_OK("count");
}
int main(int argc, char **argv) {
    Witness w(argv[1]);
    std::string u = w.str("unit");
    bool nul = u.find("_nul") != std::string::npos;
    if (u.find("utf8_get") != std::string::npos) return run_get<uint8, 8>(w);
    if (u.find("utf16_get") != std::string::npos) return run_get<uint16, 16>(w);
    if (u.find("utf32_get") != std::string::npos) return run_get<uint32, 32>(w);
    if (u.find("utf8_validate") != std::string::npos) return run_validate<uint8, 8>(w);
    if (u.find("utf16_validate") != std::string::npos) return run_validate<uint16, 16>(w);
    if (u.find("utf32_validate") != std::string::npos) return run_validate<uint32, 32>(w);
    if (u.find("count8") != std::string::npos) return run_count<uint8, gr_utf8>(w, nul);
    if (u.find("count16") != std::string::npos) return run_count<uint16, gr_utf16>(w, nul);
    if (u.find("count32") != std::string::npos) return run_count<uint32, gr_utf32>(w, nul);
    printf("unknown unit\n");
    return 0;
}
