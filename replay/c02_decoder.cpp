// replay for the C02 decoder stack-depth lemma: a program the REAL loader accepts whose SET_FEAT instructions pop values the
// loader never accounted for.  Runs it on the real interpreter under ASan: a stack pointer driven below Machine::_stack
// is reported as stack-buffer-underflow / the machine reports stack_underflow.
#include "witness.h"
#include <graphite2/Font.h>
#include <vector>
#include "inc/Code.h"
#include "inc/Rule.h"
#include "inc/Silf.h"
#include "inc/Face.h"
#include "inc/Segment.h"
using namespace graphite2;
using namespace vm;
int main(int argc, char **argv) {
    Witness w(argv[1]);
    int k = (int)w.num("w_k", 40);                 // number of SET_FEAT instructions
    if (k < 1) k = 1; if (k > 900) k = 900;
    gr_face *face = gr_make_file_face("tests/fonts/Padauk.ttf", gr_face_default);
    if (!face) { printf("no font\n"); return 0; }
    std::vector<byte> prog;
    prog.push_back(PUSH_BYTE); prog.push_back(1);
    for (int i = 0; i < k; ++i) { prog.push_back(SET_FEAT); prog.push_back(0); prog.push_back(0); }
    prog.push_back(POP_RET);
    Silf silf;
    Machine::Code code(false, &prog[0], &prog[0] + prog.size(), 0, 1, silf, *face, PASS_TYPE_SUBSTITUTE);
    if (!code) REPLAY_OK("the loader refuses the program (status %d): stack depth of SET_FEAT is accounted for", (int)code.status());
    printf("loader ACCEPTED: PUSH_BYTE 1; %d x SET_FEAT 0 0; POP_RET\n", k);
    Segment seg(1, face, 0, 0);
    Features *f = face->theSill().cloneFeatures(0);
    seg.addFeatures(*f);
    seg.appendSlot(0, 'a', 1, 0, 0);
    SlotMap smap(seg, 0, 0);
    Machine mach(smap);
    smap.pushSlot(seg.first());
    smap.pushSlot(seg.first());
    slotref *map = smap.begin() + 1;
    int32 ret = code.run(mach, map);                // ASan: stack-buffer-underflow inside direct_run
    printf("ret %d status %d\n", ret, (int)mach.status());
    if (mach.status() == Machine::stack_underflow) REPLAY_FAIL("accepted program underflowed the machine stack (status stack_underflow)");
    REPLAY_OK("no underflow");
}
