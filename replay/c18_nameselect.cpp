// replay for the c18_name_select* units (spec/c18_nameselect.c): builds a real 'name' table with the witness records, runs the REAL
// NameTable constructor + getName of /repo/src/NameTable.cpp (ASan/UBSan build) and evaluates the clauses natively:
// a picked record is a record of the (3,1) run with the requested name id; a label that exists in the run is found.
#include "witness.h"
#include <vector>
#include <graphite2/Segment.h>
#include "inc/Main.h"
#include "inc/NameTable.h"
using namespace graphite2;
static void put16(std::vector<unsigned char> &b, unsigned v) { b.push_back((v >> 8) & 0xFF); b.push_back(v & 0xFF); }
int main(int argc, char **argv) {
    if (argc < 2) { printf("usage: c18_nameselect witness.txt\n"); return 2; }
    Witness w(argv[1]);
    std::string unit = w.str("unit");
    int n = unit.size() ? unit[unit.size() - 1] - '0' : 3; if (n < 1 || n > 3) n = 3;
    unsigned plat[3], enc[3], name[3], lang[3];
    for (int i = 0; i < n; ++i) { plat[i] = (unsigned)w.arr("w_plat", i) & 0xFFFF; enc[i] = (unsigned)w.arr("w_enc", i) & 0xFFFF; name[i] = (unsigned)w.arr("w_name", i) & 0xFFFF; lang[i] = (unsigned)w.arr("w_lang", i) & 0xFFFF; }
    unsigned want_name = (unsigned)w.num("w_want_name") & 0xFFFF, want_lang = (unsigned)w.num("w_want_lang") & 0xFFFF;
    // record i's string is the single UTF-16 unit 'A'+i, so the picked record can be told from the result
    std::vector<unsigned char> t;
    const unsigned strings = 6 + 12 * n;
    put16(t, 0); put16(t, n); put16(t, strings);
    for (int i = 0; i < n; ++i) { put16(t, plat[i]); put16(t, enc[i]); put16(t, lang[i]); put16(t, name[i]); put16(t, 2); put16(t, 2 * i); }
    for (int i = 0; i < n; ++i) put16(t, 'A' + i);
    put16(t, 0xFFFF);
    unsigned char *blob = (unsigned char *)malloc(t.size());
    memcpy(blob, t.data(), t.size());
    NameTable *nt = new NameTable(blob, t.size(), 3, 1);
    free(blob);
    int first = -1, last = -1;
    for (int i = 0; i < n; ++i) if (first < 0 && plat[i] == 3 && enc[i] == 1) first = i;
    if (first >= 0) { last = first; for (int i = first + 1; i < n; ++i) { if (last == i - 1 && plat[i] == 3 && enc[i] == 1) last = i; } }
    bool exists = false;
    for (int i = 0; i < n; ++i) if (first >= 0 && i >= first && i <= last && name[i] == want_name) exists = true;
    uint16 l = (uint16)want_lang; uint32 length = 0xDEADBEEF;
    uint16 *r = (uint16 *)nt->getName(l, (uint16)want_name, gr_utf16, length);
    if (r) {
        int pick = r[0] - 'A';
        if (length != 1 || pick < 0 || pick >= n) REPLAY_FAIL("getName returned a string that is no record of the table (length %u, first unit 0x%04X)", length, r[0]);
        if (first < 0 || pick < first || pick > last) REPLAY_FAIL("picked record %d is outside the (3,1) run [%d,%d]", pick, first, last);
        if (name[pick] != want_name) REPLAY_FAIL("picked record %d has name id %u, requested %u", pick, name[pick], want_name);
        REPLAY_OK("record %d picked", pick);
    }
    if (exists) REPLAY_FAIL("the (3,1) run [%d,%d] of a %d-record table holds a record with name id %u, but getName(name %u, lang 0x%X) returned NULL", first, last, n, want_name, want_name, want_lang);
    REPLAY_OK("no such label, NULL returned");
}
