// replay for unit c02_op_attr_set_slot (spec/c02_slotops.c): runs PUSH_LONG a; ATTR_SET_SLOT attr; RET_ZERO through the REAL
// bytecode loader and the REAL interpreter (library built from /repo with ASan/UBSan) with the map cursor `off` cells after
// smap.begin().  UBSan aborts on `pop() + offset` (signed overflow) inside the opcode body.
#include "witness.h"
#include <graphite2/Font.h>
#include <climits>
#include <vector>
#include "inc/Code.h"
#include "inc/Rule.h"
#include "inc/Silf.h"
#include "inc/Face.h"
#include "inc/Segment.h"
using namespace graphite2;
using namespace vm;
typedef Machine::Code Code;

int main(int argc, char **argv) {
    Witness w(argv[1]);
    int32 a = (int32)w.num("w_a");
    long cur = (long)w.num("w_cur");                    // index of the cursor in m_slot_map: 1 = smap.begin()
    byte attr = (byte)w.arr("w_p", 0);
    int off = cur >= 1 ? int(cur - 1) : 0;
    if (off > 60) off = 60;
    std::vector<byte> prog;
    prog.push_back(PUSH_LONG); prog.push_back(byte(uint32(a) >> 24)); prog.push_back(byte(uint32(a) >> 16)); prog.push_back(byte(uint32(a) >> 8)); prog.push_back(byte(a));
    prog.push_back(ATTR_SET_SLOT); prog.push_back(attr);
    prog.push_back(RET_ZERO);
    gr_face *face = gr_make_file_face("tests/fonts/Padauk.ttf", gr_face_default);
    if (!face) { printf("no font\n"); return 0; }
    Silf silf;
    // action code of a rule with `off` slots of pre-context and off + 1 slots in all: the action starts at map = begin + off
    Code code(false, &prog[0], &prog[0] + prog.size(), uint8(off), uint16(off + 1), silf, *face, PASS_TYPE_UNKNOWN);
    if (!code) REPLAY_OK("program not accepted by the loader (status %d)", (int)code.status());
    Segment seg(1, face, 0, 0);
    std::vector<Slot> slots(off + 1);
    SlotMap smap(seg, 0, 0);
    Machine mach(smap);
    for (int i = 0; i <= off; ++i) smap.pushSlot(&slots[i]);
    slotref *map = smap.begin() + off;
    printf("running PUSH_LONG %d; ATTR_SET_SLOT %d; RET_ZERO with map - smap.begin() == %d\n", a, attr, off);
    int32 ret = code.run(mach, map);                    // UBSan aborts on undefined behaviour inside the opcode
    (void)ret;
    long long sum = (long long)a + (attr == gr_slatAttTo ? off : 0);
    if (sum > INT_MAX || sum < INT_MIN) REPLAY_FAIL("pop() + offset = %lld does not fit an int but no sanitizer report", sum);
    REPLAY_OK("no overflow for these inputs (status %d)", (int)mach.status());
}
