// replay for C12/C05/C11 units around process_utf_data: calls the REAL gr_make_seg (library built from /repo with
// ASan/UBSan) on a NUL-terminated string held in an exact-size heap buffer and checks the header's contract:
// processing stops at the first NUL or after nChars characters; one char-info per character consumed.
#include "witness.h"
#include <graphite2/Segment.h>
#include <graphite2/Font.h>
#include <vector>
// independent reference: number of characters before the first NUL (ill-formed sequences count one per U+FFFD step is
// not needed here: witnesses for C12 are ASCII / BMP units)
int main(int argc, char **argv) {
    Witness w(argv[1]);
    int enc = (int)w.num("w_enc", 1);                 // 1,2,4 = gr_utf8/16/32
    size_t n = (size_t)w.unum("w_n");                 // code units before the NUL
    size_t nChars = (size_t)w.unum("w_nchars");
    if (n > 64) n = 64;
    if (nChars > 4096) nChars = 4096;
    size_t usz = (size_t)enc;
    unsigned char *buf = (unsigned char *)malloc((n + 1) * usz);   // exactly n units + NUL
    for (size_t i = 0; i < n; ++i) {
        unsigned long long v = (unsigned long long)w.arr("w_u", (int)i, 'a');
        if (v == 0) v = 'a';
        if (enc == 1) buf[i] = (unsigned char)(v & 0x7F ? v & 0x7F : 'a');          // keep witnesses ASCII: one unit = one character
        else if (enc == 2) { unsigned short u = (unsigned short)v; if (u >= 0xD800 && u <= 0xDFFF) u = 'a'; if (!u) u = 'a'; memcpy(buf + 2 * i, &u, 2); }
        else { unsigned int u = (unsigned int)v; if (u >= 0x110000 || !u) u = 'a'; memcpy(buf + 4 * i, &u, 4); }
    }
    memset(buf + n * usz, 0, usz);
    // several fonts: whether U+0000 / U+FFFD are mapped differs between them (the cmap is a symbolic stub in the proof)
    static const char *fonts[] = { "tests/fonts/Padauk.ttf", "tests/fonts/Scheherazadegr.ttf", "tests/fonts/charis_r_gr.ttf", "tests/fonts/Awami_test.ttf" };
    size_t expect = n < nChars ? n : nChars;
    int bad = 0;
    for (unsigned fi = 0; fi < sizeof fonts / sizeof *fonts; ++fi) {
        gr_face *face = gr_make_file_face(fonts[fi], gr_face_default);
        if (!face) { printf("cannot load %s\n", fonts[fi]); continue; }
        gr_segment *seg = gr_make_seg(NULL, face, 0, NULL, (gr_encform)enc, buf, nChars, 0);   // ASan aborts on a read past the NUL
        if (seg) {
            unsigned got = gr_seg_n_cinfo(seg);
            if (got != expect) { bad = 1; printf("%s: gr_seg_n_cinfo = %u, characters actually consumed = %zu (units before NUL %zu, nChars %zu)\n", fonts[fi], got, expect, n, nChars); }
            for (unsigned k = 0; k < got && k < expect; ++k) {
                const gr_char_info *ci = gr_seg_cinfo(seg, k);
                if (gr_cinfo_base(ci) != k) { bad = 1; printf("%s: gr_cinfo_base(%u) = %zu\n", fonts[fi], k, gr_cinfo_base(ci)); }
            }
            gr_seg_destroy(seg);
        } else if (expect) { printf("gr_make_seg returned NULL\n"); }
        gr_face_destroy(face);
    }
    free(buf);
    if (bad) REPLAY_FAIL("segment does not have one char-info per character consumed");
    REPLAY_OK("gr_make_seg stopped at the NUL / nChars");
}
