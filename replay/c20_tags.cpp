// replay for C20 units: runs the REAL gr_str_to_tag / gr_tag_to_str / zeropad of /repo/src/gr_face.cpp
// (included textually so that the anonymous-namespace zeropad is reachable) on the verifier's witness,
// with exact-size heap buffers under ASan/UBSan, and evaluates the property's postcondition.
#include "witness.h"
#include "gr_face.cpp"   // the real translation unit, found through -I<repo>/src

static gr_uint32 pack(const char *s, size_t n) {
    gr_uint32 r = 0;
    for (size_t i = 0; i < 4; ++i) r = (r << 8) | (i < n ? (unsigned char)s[i] : 0u);
    return r;
}
static gr_uint32 spec_zeropad(gr_uint32 x) {
    if ((x & 0xFFu) != 0x20u) return x;
    if ((x & 0xFFFFu) != 0x2020u) return x & 0xFFFFFF00u;
    if ((x & 0xFFFFFFu) != 0x202020u) return x & 0xFFFF0000u;
    if (x != 0x20202020u) return x & 0xFF000000u;
    return 0;
}
int main(int argc, char **argv) {
    Witness w(argv[1]);
    std::string unit = w.str("unit");
    if (unit == "c20_str_to_tag") {
        size_t n = (size_t)w.unum("w_n");
        if (n > 4096) n = 4096;
        char *s = (char *)malloc(n + 1);
        for (size_t i = 0; i < n; ++i) s[i] = i < 8 ? (char)w.arr("w_b", (int)i, 'x') : 'x';
        for (size_t i = 0; i < n; ++i) if (!s[i]) s[i] = 'x';
        s[n] = 0;
        gr_uint32 r = gr_str_to_tag(s);           // ASan aborts here on an over-read
        gr_uint32 e = pack(s, n < 4 ? n : 4);
        if (r != e) REPLAY_FAIL("gr_str_to_tag(len %zu) returned 0x%08X, big-endian tag of first min(4,len) chars is 0x%08X", n, r, e);
        REPLAY_OK("gr_str_to_tag");
    } else if (unit == "c20_tag_to_str") {
        gr_uint32 tag = (gr_uint32)w.unum("w_tag");
        if (w.num("w_null")) { gr_tag_to_str(tag, NULL); REPLAY_OK("NULL ignored"); }
        char *b = (char *)malloc(4);
        gr_tag_to_str(tag, b);                    // ASan aborts on a fifth byte
        if ((unsigned char)b[0] != (tag >> 24) || (unsigned char)b[1] != ((tag >> 16) & 0xFF) || (unsigned char)b[2] != ((tag >> 8) & 0xFF) || (unsigned char)b[3] != (tag & 0xFF))
            REPLAY_FAIL("gr_tag_to_str wrote wrong bytes for 0x%08X", tag);
        REPLAY_OK("gr_tag_to_str");
    } else if (unit == "c20_zeropad") {
        gr_uint32 x = (gr_uint32)w.unum("w_x");
        if (zeropad(x) != spec_zeropad(x)) REPLAY_FAIL("zeropad(0x%08X) = 0x%08X, expected 0x%08X", x, zeropad(x), spec_zeropad(x));
        REPLAY_OK("zeropad");
    }
    printf("unknown unit %s\n", unit.c_str());
    return 0;
}
