// replay for the c18_getname_* units (spec/c18_names.c): builds a real 'name' table around the witness string, runs the
// REAL NameTable::getName of /repo/src/NameTable.cpp (ASan/UBSan build) for the witness encoding and evaluates the same
// clauses natively: length = units written, NUL at length, utf32 = scalar values of the reference UTF-16 decoder,
// utf8 = well-formed UTF-8 of the same scalar values.
// Not replayable natively: allocation failure (w_fail) and strings that utf16::validate (first half of getName) refuses
// (last unit a lead surrogate) - the witness build of the unit excludes the latter.
#include "witness.h"
#include <vector>
#include <graphite2/Segment.h>
#include "inc/Main.h"
#include "inc/NameTable.h"
using namespace graphite2;
#define VERIF_REPLAY
#include "../spec/utf_ref.h"

static void put16(std::vector<unsigned char> &b, unsigned v) { b.push_back((v >> 8) & 0xFF); b.push_back(v & 0xFF); }

int main(int argc, char **argv) {
    if (argc < 2) { printf("usage: c18_names witness.txt\n"); return 2; }
    Witness w(argv[1]);
    size_t K = (size_t)w.unum("w_len"); if (K > 6) K = 6;
    int enc = (int)w.num("w_enc");
    uint16 u[7] = {0, 0, 0, 0, 0, 0, 0};
    for (size_t i = 0; i < K; ++i) u[i] = (uint16)w.arr("w_u", (int)i);
    if (w.num("w_fail")) REPLAY_OK("allocation failure cannot be forced on the real allocator");

    // name table: 3 records (getName never selects record 0 and needs two records of the platform to walk them)
    std::vector<unsigned char> t;
    const unsigned nrec = 3, strings = 6 + 12 * nrec;
    put16(t, 0); put16(t, nrec); put16(t, strings);
    put16(t, 1); put16(t, 0); put16(t, 0);      put16(t, 1);   put16(t, 0);               put16(t, 0);     // Macintosh, ignored
    put16(t, 3); put16(t, 1); put16(t, 0x409);  put16(t, 256); put16(t, (unsigned)(2 * K)); put16(t, 0);   // the label
    put16(t, 3); put16(t, 1); put16(t, 0x409);  put16(t, 257); put16(t, 0);               put16(t, 0);
    for (size_t i = 0; i < K; ++i) put16(t, u[i]);
    put16(t, 0xFFFF);                             // something after the string (never part of it)
    unsigned char *blob = (unsigned char *)malloc(t.size());
    memcpy(blob, t.data(), t.size());
    NameTable *nt = new NameTable(blob, t.size(), 3, 1);
    free(blob);

    uint16 lang = 0x409; uint32 length = 0xDEADBEEF;
    void *r = nt->getName(lang, 256, (gr_encform)enc, length);      // ASan aborts on an out-of-bounds write / read
    const bool refused = K > 0 && u[K - 1] >= 0xD800 && u[K - 1] <= 0xDBFF;
    if (refused) { if (r) REPLAY_FAIL("a name ending in a lead surrogate was not refused"); REPLAY_OK("name refused by utf16::validate (outside the second half)"); }
    if (enc != gr_utf8 && enc != gr_utf16 && enc != gr_utf32) {
        if (r || lang != 0 || length != 0) REPLAY_FAIL("unknown encoding %d: result %p languageId %u length %u", enc, r, lang, length);
        REPLAY_OK("unknown encoding");
    }
    if (!r) REPLAY_FAIL("getName returned NULL for a valid record (enc %d, %zu units)", enc, K);
    if (lang != 0x409) REPLAY_FAIL("languageId %u instead of 0x409", lang);

    uint32 want[7]; size_t n = 0;
    for (size_t i = 0; i < K; ) { ref_t d = ref16(u + i, K - i); want[n++] = d.ok ? d.usv : 0xFFFDu; i += (size_t)d.len; }

    if (enc == gr_utf16) {
        const uint16 *o = (const uint16 *)r;
        if (length != K) REPLAY_FAIL("utf16: length %u, the record has %zu units", length, K);
        for (size_t i = 0; i < K; ++i) if (o[i] != u[i]) REPLAY_FAIL("utf16: unit %zu is 0x%04X, record has 0x%04X", i, o[i], u[i]);
        if (o[K] != 0) REPLAY_FAIL("utf16: not NUL terminated");
        REPLAY_OK("utf16 label");
    }
    if (enc == gr_utf32) {
        const uint32 *o = (const uint32 *)r;
        if (length != n) REPLAY_FAIL("utf32: length %u but the name has %zu code points (%zu UTF-16 units: %04X %04X %04X %04X)", length, n, K, u[0], u[1], u[2], u[3]);
        for (size_t j = 0; j < n; ++j) if (o[j] != want[j]) REPLAY_FAIL("utf32: code point %zu is U+%04X, UTF-16 name has U+%04X", j, o[j], want[j]);
        if (o[length] != 0) REPLAY_FAIL("utf32: not NUL terminated at length");
        REPLAY_OK("utf32 label");
    }
    const uint8 *o = (const uint8 *)r;
    size_t pos = 0;
    for (size_t j = 0; j < n; ++j) {
        if (pos >= length) REPLAY_FAIL("utf8: length %u ends before code point %zu of %zu", length, j, n);
        ref_t d = ref8(o + pos, length - pos);
        if (!d.ok || d.usv != want[j]) REPLAY_FAIL("utf8: sequence %zu at byte %zu decodes to %s U+%04X, UTF-16 name has U+%04X", j, pos, d.ok ? "" : "(ill-formed)", d.usv, want[j]);
        pos += (size_t)d.len;
    }
    if (pos != length) REPLAY_FAIL("utf8: length %u but the encoding of the name has %zu bytes", length, pos);
    if (o[length] != 0) REPLAY_FAIL("utf8: not NUL terminated at length");
    REPLAY_OK("utf8 label");
}
