// NEXT lets the map cursor reach smap.end(); with m_size == MAX_SLOTS that is one past m_slot_map[MAX_SLOTS+1] and the
// epilogue of direct_run (`*__map = is`) stores there, i.e. over SlotMap::m_size / m_precontext.
#include <graphite2/Font.h>
#include <cstdio>
#include <vector>
#include "inc/Code.h"
#include "inc/Rule.h"
#include "inc/Silf.h"
#include "inc/Face.h"
#include "inc/Segment.h"
using namespace graphite2;
using namespace vm;
int main() {
    std::vector<byte> prog(63, byte(NEXT)); prog.push_back(RET_ZERO);
    gr_face *face = gr_make_file_face("tests/fonts/Padauk.ttf", gr_face_default);
    if (!face) { printf("no font\n"); return 2; }
    Silf silf;
    Machine::Code code(false, &prog[0], &prog[0] + prog.size(), 0 /*preContext*/, 63 /*sort*/, silf, *face, PASS_TYPE_UNKNOWN);
    if (!code) { printf("program refused, status %d\n", (int)code.status()); return 0; }
    Segment seg(1, face, 0, 0);
    std::vector<Slot> slots(65);
    for (int i = 0; i < 64; ++i) { slots[i].next(&slots[i + 1]); slots[i + 1].prev(&slots[i]); }
    SlotMap smap(seg, 0, 0);
    Machine mach(smap);
    smap.reset(slots[1], 1);                       // FSM pre-context 1 (Pass::runFSM -> fsm.reset(slot, m_maxPreCtxt))
    for (int i = 0; i < 64; ++i) smap.pushSlot(&slots[i]);   // 63 pushes in the FSM loop + the final pushSlot: m_size == MAX_SLOTS
    printf("before: size %zu context %u  (rule: sort 63, preContext 0: sort + context - preContext = 64 <= size, as Pass::testConstraint requires)\n", smap.size(), smap.context());
    slotref *map = &smap[smap.context()];          // Pass::doAction
    int32 ret = code.run(mach, map);
    printf("after : size %zu context %u status %d ret %d, map - begin = %ld (m_slot_map has cells begin-1 .. begin+63)\n", smap.size(), smap.context(), (int)mach.status(), ret, (long)(map - smap.begin()));
    if (smap.size() != 64 || smap.context() != 1) { printf("FAIL: SlotMap::m_size / m_precontext overwritten by the store through map == smap.end()\n"); return 1; }
    printf("ok\n"); return 0;
}
