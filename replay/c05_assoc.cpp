// replay for C05 associateChars units: builds a REAL Segment (library built from /repo with ASan/UBSan) with n slots whose
// before/after associations come from the witness, calls the real Segment::associateChars and checks the statement.
#include "witness.h"
#include <graphite2/Font.h>
#include "inc/Face.h"
#include "inc/Segment.h"
using namespace graphite2;
int main(int argc, char **argv) {
    Witness w(argv[1]);
    int n = (int)w.num("w_n"), M = (int)w.num("w_m");
    if (n < 0) n = 0; if (n > 8) n = 8; if (M < 1) M = 1; if (M > 8) M = 8;
    gr_face *face = gr_make_file_face("tests/fonts/Padauk.ttf", gr_face_default);
    if (!face) { printf("no font\n"); return 0; }
    Segment seg(M, face, 0, 0);
    Features *f = face->theSill().cloneFeatures(0);
    seg.addFeatures(*f);
    for (int k = 0; k < n; ++k) seg.appendSlot(k % M, 'a', 1, 0, k);
    int k = 0;
    for (Slot *s = seg.first(); s; s = s->next(), ++k) {
        long long b = w.arr("w_before", k), a = w.arr("w_after", k);
        if (b < 0 || b >= M) b = 0; if (a < 0 || a >= M) a = 0;
        s->before((int)b); s->after((int)a);
    }
    seg.associateChars(0, M);
    int bad = 0;
    std::string obl = w.str("description");
    if (obl.find("lies in the [before,after] range") != std::string::npos) {
        // coverage clause only: every character index lies in the [before,after] range of at least one slot
        const bool inner_only = obl.find("between claimed characters") != std::string::npos || obl.find("a character between claimed") != std::string::npos;
        int fc = -1, lc = -1;
        { int kk = 0; for (int q = 0; q < n; ++q, ++kk) { long long b = w.arr("w_before", kk), a = w.arr("w_after", kk); if (b < 0 || b >= M) b = 0; if (a < 0 || a >= M) a = 0; for (int c = (int)b; c <= (int)a; ++c) { if (fc < 0 || c < fc) fc = c; if (c > lc) lc = c; } } }
        for (int c = 0; c < M && n > 0; ++c) {
            if (inner_only && !(fc >= 0 && c >= fc && c <= lc)) continue;
            bool in_some = false;
            for (Slot *s = seg.first(); s; s = s->next()) if (s->before() <= c && c <= s->after()) in_some = true;
            if (!in_some) { printf("character %d is in no slot's [before,after] range\n", c); bad = 1; }
        }
        delete f;
        if (bad) REPLAY_FAIL("a character index lies in no slot's [before,after] range");
        REPLAY_OK("coverage clause holds");
    }
    bool only_inner = obl.find("between claimed characters") != std::string::npos;
    int first_cov = -1, last_cov = -1;
    { int kk = 0; for (Slot *s = seg.first(); s; s = s->next(), ++kk) { long long b = w.arr("w_before", kk), a = w.arr("w_after", kk); if (b < 0 || b >= M) b = 0; if (a < 0 || a >= M) a = 0; for (int c = (int)b; c <= (int)a; ++c) { if (first_cov < 0 || c < first_cov) first_cov = c; if (c > last_cov) last_cov = c; } } }
    for (int c = 0; c < M && n > 0; ++c) {
        if (only_inner && !(first_cov >= 0 && c >= first_cov && c <= last_cov)) continue;
        const CharInfo *ci = seg.charinfo(c);
        if (ci->before() < 0 || ci->before() >= n || ci->after() < 0 || ci->after() >= n) { printf("char-info %d: before=%d after=%d with %d slots\n", c, ci->before(), ci->after(), n); bad = 1; }
    }
    delete f;
    if (bad) REPLAY_FAIL("a char-info's before/after is not a slot index in [0,n) although the segment has slots");
    REPLAY_OK("associateChars");
}
