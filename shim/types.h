/* shim/types.h - C environment in which bodies extracted from /repo compile unchanged.
 * Only typedefs (copied from src/inc/Main.h / include/graphite2/Types.h), the
 * function-style-cast macros (rewrite rule R3: `uint32(x)` is C++ functional-cast
 * syntax; the macro gives the identical conversion in C), and verification helpers.
 */
#ifndef VERIF_SHIM_TYPES_H
#define VERIF_SHIM_TYPES_H
#include <stdint.h>
#include <stddef.h>
#include <stdbool.h>
#include <stdlib.h>
#include <string.h>
#include <limits.h>
#include <math.h>
#undef bool
typedef _Bool bool;

typedef unsigned char  gr_uint8;
typedef gr_uint8       gr_byte;
typedef signed char    gr_int8;
typedef unsigned short gr_uint16;
typedef short          gr_int16;
typedef unsigned int   gr_uint32;
typedef int            gr_int32;

typedef gr_uint8   uint8;
typedef gr_uint8   byte;
typedef gr_uint16  uint16;
typedef gr_uint32  uint32;
typedef gr_int8    int8;
typedef gr_int16   int16;
typedef gr_int32   int32;
typedef size_t     uintptr;
typedef uint32     uchar_t;

/* R3: function-style casts of scalar type names.  A function-like macro only
 * expands when the name is followed by '(' so declarations are unaffected. */
#define uint8(x)   ((uint8)(x))
#define byte(x)    ((byte)(x))
#define uint16(x)  ((uint16)(x))
#define uint32(x)  ((uint32)(x))
#define int8(x)    ((int8)(x))
#define int16(x)   ((int16)(x))
#define int32(x)   ((int32)(x))
#define gr_uint16(x) ((gr_uint16)(x))
#define gr_uint32(x) ((gr_uint32)(x))
#define size_t(x)  ((size_t)(x))
#define char(x)    ((char)(x))
#define ptrdiff_t(x) ((ptrdiff_t)(x))
#define uchar_t(x) ((uchar_t)(x))
#define uintptr(x) ((uintptr)(x))
#define float(x)   ((float)(x))
#define int(x)     ((int)(x))
#define bool(x)    ((bool)(x))
#define unsigned(x) ((unsigned)(x))

#define GR_FALLTHROUGH /* fall through */
#define GR_MAYBE_UNUSED
#define HOT
#define nullptr NULL

/* verification helpers */
#define OFF(p)        __CPROVER_POINTER_OFFSET(p)
#define SAME(p, q)    __CPROVER_same_object((p), (q))
#define OBJSZ(p)      __CPROVER_OBJECT_SIZE(p)

#ifndef MAXN
#define MAXN 4096
#endif

/* canary: reachable under the preconditions => must FAIL (vacuity guard) */
#define CANARY() __CPROVER_assert(0, "CANARY reachable end of harness")

#endif
