#!/bin/bash
# tools/confirm_mutants.sh [ids...] - confirm every candidate under seeded_inbox/<PID>/<m> in a scratch worktree of /repo:
#   (1) patch applies and the library builds, (2) the 87 baseline tests still pass (same 6 known failures),
#   (3) the demonstration fails with the patch and passes without.  Confirmed ones are copied to seeded/<PID>_<m>/.
cd /verif
BASE=$(python3 -c "import json;print(' '.join(sorted(t.split('::')[0] for t in json.load(open('/root/.vp/BASELINE.json'))['stable_pass'])))")
for d in ${@:-seeded_inbox/*/m*}; do
  pid=$(basename $(dirname $d)); m=$(basename $d); id=${pid}_$m${SUFFIX:-}
  wt=/tmp/cm_$id; log=/tmp/cm_$id.log
  rm -rf $wt; git -C /repo worktree add -f $wt HEAD >/dev/null 2>&1 || { echo "$id worktree-failed"; continue; }
  ( cd $wt
    bash $OLDPWD/$d/run_demo.sh $wt > $log.clean 2>&1; clean_rc=$?
    if ! git apply $OLDPWD/$d/patch.diff 2>$log.apply; then echo "$id PATCH-DOES-NOT-APPLY"; exit 0; fi
    cmake -G Ninja -B _build -S . -DCMAKE_BUILD_TYPE=RelWithDebInfo >/dev/null 2>&1 && cmake --build _build >$log.build 2>&1 || { echo "$id BUILD-FAILS"; exit 0; }
    ctest --test-dir _build -j8 --timeout 900 >$log.ctest 2>&1
    passed=$(grep -E "Passed" $log.ctest | sed -E 's/.*Test +#[0-9]+: +([^ ]+) .*/\1/' | sort | tr '\n' ' ')
    missing=""; for t in $BASE; do case " $passed " in *" $t "*) ;; *) missing="$missing $t";; esac; done
    bash $OLDPWD/$d/run_demo.sh $wt > $log.patched 2>&1; patched_rc=$?
    ok=no; [ -z "$missing" ] && [ $clean_rc -eq 0 ] && [ $patched_rc -ne 0 ] && ok=yes
    echo "$id confirmed=$ok tests_missing=[$missing ] demo_clean_rc=$clean_rc demo_patched_rc=$patched_rc"
    if [ $ok = yes ]; then
      mkdir -p /verif/seeded/$id && cp -r $OLDPWD/$d/* /verif/seeded/$id/
      python3 - "$OLDPWD/$d/meta.json" /verif/seeded/$id/meta.json $pid $clean_rc $patched_rc <<'PY'
import json,sys
try: m=json.load(open(sys.argv[1]))
except Exception: m={}
m.update({'property':sys.argv[3],'confirmed_by':'tools/confirm_mutants.sh in a scratch worktree of /repo HEAD','what_was_run':['git apply patch.diff','cmake -G Ninja + cmake --build','ctest -j8 (all 87 baseline tests pass)','run_demo.sh <clean tree> -> exit %s'%sys.argv[4],'run_demo.sh <patched tree> -> exit %s'%sys.argv[5]]})
json.dump(m,open(sys.argv[2],'w'),indent=1)
PY
    fi )
  git -C /repo worktree remove --force $wt >/dev/null 2>&1; rm -rf $wt
done
git -C /repo worktree prune
