#!/usr/bin/env python3
"""Generate spec/c02_slotops.c: one proof unit per slot / attribute / feature opcode body of src/inc/opcodes.h that
tools/gen_c07_spec.py (stack opcodes), spec/c03_slots.c (insert, delete_), spec/c04_forest.c (put_copy) and
spec/c05_assoc.c (assoc) do not cover.  Direct-threaded macro environment (src/direct_machine.cpp) only.
Run: python3 tools/gen_c02_slotops.py"""
import os
HERE = os.path.dirname(os.path.dirname(os.path.abspath(__file__)))
PROPS = "['C02']"

# ---------------------------------------------------------------------------------------------------------------
# call-log clauses: CALLS(...) pins the number of calls of every callee stub
CALLEES = ['sa', 'ga', 'ps', 'gcg', 'fci', 'sg', 'gat', 'gm', 'gf', 'sf', 'ns']


def calls(**kw):
    return ' && '.join('g_log.n_%s == %s' % (c, kw.get(c, 0)) for c in CALLEES)


SA_COMMON = 'g_log.sa_self == g_is0 && g_log.sa_seg == g_seg && g_log.sa_map == g_smap'
POSATTR = '(P[0] == gr_slatPosX || P[0] == gr_slatPosY)'
NEEDPOS = '(%s && (g_flags0 & 1) == 0)' % POSATTR
PS_ARGS = ('(g_log.ps_font == (const void *)0 && g_log.ps_first == g_smap->m_slot_map[1] && g_log.ps_last == g_smap->m_slot_map[g_smap->m_size]'
           ' && g_log.ps_rtl == (bool)(((g_seg->m_dir >> 6) ^ g_seg->m_dir) & 1) && g_log.ps_first_call)')

OPS = []


def op(name, enum, pops, pushes, psz, methods, requires, assigns, ensures, claim, subs=None, is_nonnull=True, extra_defs='', final="['C02']", unit_extra=''):
    OPS.append(dict(name=name, enum=enum, pops=pops, pushes=pushes, psz=psz, methods=methods, requires=requires, assigns=assigns, ensures=ensures, claim=claim,
                    subs=subs or [], is_nonnull=is_nonnull, extra_defs=extra_defs, final=final, unit_extra=unit_extra))


# ---- next (table rows NEXT and COPY_NEXT)
op('next', 'NEXT', 0, 0, 0, ['size', 'highwater', 'highpassed', 'next'],
   [],
   '*sp_, (*sp_)[1], reg_->is, reg_->map, g_smap->m_highpassed, g_status',
   ['AT_END ==> (g_status == died_early && __CPROVER_return_value == 0 && *sp_ == __CPROVER_old(*sp_) + 1 && (*sp_)[0] == 1)                 /* DIE; EXIT(1) */',
    'AT_END ==> (reg_->map == &g_smap->m_slot_map[g_cur] && reg_->is == g_seg->m_last && g_smap->m_highpassed == __CPROVER_old(g_smap->m_highpassed))',
    '!AT_END ==> (g_status == g_status0 && *sp_ == __CPROVER_old(*sp_) && CONT)',
    '/* the cursor advances by one cell and is still inside [&smap[-1], smap.end()] */\n    !AT_END ==> (reg_->map == &g_smap->m_slot_map[g_cur + 1] && g_cur + 1 <= (unsigned)g_smap->m_size + 1u)',
    '/* NULL `is` is tested before the dereference: the current slot moves to its successor, a NULL one stays NULL */\n    !AT_END ==> reg_->is == (g_is0 ? g_is0->m_next : (Slot *)0)',
    '!AT_END ==> g_smap->m_highpassed == (__CPROVER_old(g_smap->m_highpassed) || (g_is0 != (Slot *)0 && g_is0 == g_smap->m_highwater))',
    '*dp_ == g_data', calls()],
   'next (table rows NEXT and COPY_NEXT): dies (died_early, EXIT(1)) exactly when the map cursor already stands at smap.end(), otherwise advances map by one cell (so map never passes smap.end()), moves the current slot to its successor testing NULL first, and raises highpassed exactly when it leaves the high-water slot; no stack cell, parameter byte, slot or map entry is written',
   subs=[[r'map - &smap\[0\]', 'PDIFF(map, SlotMap_ref(&smap, 0))', 0]], is_nonnull=False,
   extra_defs='#define AT_END (g_cur == (unsigned)g_smap->m_size + 1u)        /* map == smap.end() */')

# ---- put_glyph_8bit_obs / put_glyph
for (nm, en, psz, cls) in (('put_glyph_8bit_obs', 'PUT_GLYPH_8BIT_OBS', 1, '(unsigned)P[0]'), ('put_glyph', 'PUT_GLYPH', 2, 'P16(0)')):
    op(nm, en, 0, 0, psz, ['setGlyph', 'getClassGlyph'], [], '*dp_, __CPROVER_object_whole(&g_log)',
       ['*sp_ == __CPROVER_old(*sp_) && *dp_ == g_data + %d && CONT && g_status == g_status0' % psz,
        calls(gcg=1, sg=1),
        'g_log.gcg_cid == %s && g_log.gcg_off == 0' % cls,
        'g_log.sg_self == g_is0 && g_log.sg_seg == g_seg && g_log.sg_gid == g_log.gcg_ret'],
       '%s: no stack effect, consumes %d parameter byte(s), asks getClassGlyph for entry 0 of the output class named by the parameter (a class index the loader checked: call-site obligation cid < numClasses) and gives exactly that glyph to setGlyph of the current slot; nothing else is called or written' % (nm, psz),
       extra_defs='#define OP_ASSUME (%s < g_numClasses)      /* c02_fetch_opcode: accepted ==> output class < numClasses */' % cls)

# ---- put_subs_8bit_obs / put_subs
for (nm, en, psz, icls, ocls) in (('put_subs_8bit_obs', 'PUT_SUBS_8BIT_OBS', 3, '(unsigned)P[1]', '(unsigned)P[2]'), ('put_subs', 'PUT_SUBS', 5, 'P16(1)', 'P16(3)')):
    op(nm, en, 0, 0, psz, ['setGlyph', 'getClassGlyph', 'findClassIndex', 'gid'], [], '*dp_, g_status, __CPROVER_object_whole(&g_log)',
       ['*sp_ == __CPROVER_old(*sp_) && *dp_ == g_data + %d && CONT' % psz,
        'WINSTATUS(0)',
        'SLOT(0) == (Slot *)0 ==> (%s)' % calls(),
        'SLOT(0) != (Slot *)0 ==> (%s)' % calls(fci=1, gcg=1, sg=1),
        'SLOT(0) != (Slot *)0 ==> (g_log.fci_cid == %s && g_log.fci_gid == SLOT(0)->m_glyphid)' % icls,
        'SLOT(0) != (Slot *)0 ==> (g_log.gcg_cid == %s && g_log.gcg_off == g_log.fci_ret)' % ocls,
        'SLOT(0) != (Slot *)0 ==> (g_log.sg_self == g_is0 && g_log.sg_seg == g_seg && g_log.sg_gid == g_log.gcg_ret)'],
       '%s: no stack effect, consumes %d parameter bytes, resolves the slot reference through slotat (inside the slot map; outside the window: NULL + slot_offset_out_bounds, NULL tested before use), looks the referenced glyph up in the input class, takes the entry of that index from the output class (both class indices < numClasses: call-site obligations) and sets it on the current slot' % (nm, psz),
       extra_defs='#define OP_ASSUME (%s < g_numClasses && %s < g_numClasses)      /* c02_fetch_opcode: accepted ==> both class indices < numClasses */' % (icls, ocls))

# ---- cntxt_item
op('cntxt_item', 'CNTXT_ITEM', 0, 1, 3, [], ['reg_->ip_ == &g_ip && g_ip == g_code + g_ipk'],
   '*sp_, (*sp_)[1], *dp_, g_ip',
   ['JUMPS ==> (*sp_ == __CPROVER_old(*sp_) + 1 && (*sp_)[0] == 1 && g_ip == g_code + g_ipk + P[1] && *dp_ == g_data + 3 + P[2])',
    '!JUMPS ==> (*sp_ == __CPROVER_old(*sp_) && g_ip == g_code + g_ipk && *dp_ == g_data + 3)',
    'CONT && g_status == g_status0', calls()],
   'cntxt_item (constraint code): consumes its 3 parameter bytes (slot, instruction skip, data skip - table param_sz 2 plus the data-skip byte emit_opcode appends); when the map cursor is not at mapb + slot it skips exactly iskip instructions and dskip data bytes, which stay inside the instruction / data arrays under the skip amounts emit_opcode wrote, and pushes 1; otherwise it falls through with no stack effect; mapb + slot stays inside the slot map',
   is_nonnull=False,
   extra_defs='''#define JUMPS ((long)g_smap->m_precontext + 1 + REF(0) != (long)g_cur)      /* mapb + is_arg != map */
#define OP_EXTRA_DATA ((size_t)w_p[2])
/* loader: F5 of c02_code_fetch (slot + pre_context in [0, rule_length)) with Pass::testConstraint (the rule's slots lie inside the slot map) */
#define OP_ASSUME ((long)sm->m_precontext + REF(0) >= 0 && (long)sm->m_precontext + REF(0) <= (long)sm->m_size)''')

# ---- attr_set / iattr_set
for (nm, en, psz, sub) in (('attr_set', 'ATTR_SET', 1, '0'), ('iattr_set', 'IATTR_SET', 2, 'P[1]')):
    op(nm, en, 1, 0, psz, ['setAttr'], [], '*sp_, *dp_, __CPROVER_object_whole(&g_log)',
       ['*sp_ == __CPROVER_old(*sp_) - 1 && *dp_ == g_data + %d && CONT && g_status == g_status0' % psz,
        calls(sa=1),
        SA_COMMON + ' && g_log.sa_ind == (attrCode)P[0] && g_log.sa_sub == %s && g_log.sa_val == (int16)A' % sub],
       '%s: pops one value, consumes %d parameter byte(s), one call setAttr(current slot, attribute = param[0], subindex = %s, value = popped value) with an attribute / subindex pair the loader accepts (call-site obligation); nothing else' % (nm, psz, 'param[1]' if sub != '0' else '0'),
       extra_defs='#define OP_ASSUME %s' % ('ATTR_OK_IDX' if sub != '0' else 'ATTR_OK_PLAIN'))

# ---- attr_add / attr_sub / iattr_add / iattr_sub
for (nm, en, psz, sub, val) in (('attr_add', 'ATTR_ADD', 1, '0', '(uint32)A + (uint32)g_log.ga_ret'), ('attr_sub', 'ATTR_SUB', 1, '0', '(uint32)g_log.ga_ret - (uint32)A'),
                                ('iattr_add', 'IATTR_ADD', 2, 'P[1]', '(uint32)A + (uint32)g_log.ga_ret'), ('iattr_sub', 'IATTR_SUB', 2, 'P[1]', '(uint32)g_log.ga_ret - (uint32)A')):
    op(nm, en, 1, 0, psz, ['setAttr', 'getAttr', 'positionSlots', 'begin', 'end', 'currdir'], [], '*sp_, *dp_, reg_->flags, __CPROVER_object_whole(&g_log)',
       ['*sp_ == __CPROVER_old(*sp_) - 1 && *dp_ == g_data + %d && CONT && g_status == g_status0' % psz,
        '/* positions are brought up to date once, before the first read of a position attribute */\n    reg_->flags == (%s ? (int8)(g_flags0 | 1) : g_flags0)' % POSATTR,
        calls(sa=1, ga=1, ps='(%s ? 1 : 0)' % NEEDPOS),
        '%s ==> %s' % (NEEDPOS, PS_ARGS),
        'g_log.ga_self == g_is0 && g_log.ga_seg == g_seg && g_log.ga_ind == (attrCode)P[0] && g_log.ga_sub == %s && g_log.ga_before_set' % sub,
        SA_COMMON + ' && g_log.sa_ind == (attrCode)P[0] && g_log.sa_sub == %s && g_log.sa_val == (int16)(int32)(%s)' % (sub, val)],
       '%s: pops one value, consumes %d parameter byte(s); for a position attribute with positions not yet current it calls positionSlots(0, first map slot, last map slot, currdir) once and sets the POSITIONED flag; then getAttr and setAttr on the current slot with the same attribute / subindex and the 32-bit wrap-around %s' % (nm, psz, 'sum' if 'add' in nm else 'difference'),
       extra_defs='#define OP_ASSUME %s' % ('ATTR_OK_IDX' if sub != '0' else 'ATTR_OK_PLAIN'))

# ---- attr_set_slot / iattr_set_slot
OFFS = '((int)g_cur - 1) * (int)(P[0] == gr_slatAttTo)'
PD = [[r'map - smap\.begin\(\)', 'PDIFF(map, smap.begin())', 0]]
op('attr_set_slot', 'ATTR_SET_SLOT', 1, 0, 1, ['setAttr', 'begin'], [], '*sp_, *dp_, __CPROVER_object_whole(&g_log)',
   ['*sp_ == __CPROVER_old(*sp_) - 1 && *dp_ == g_data + 1 && CONT && g_status == g_status0',
    calls(sa=1),
    SA_COMMON + ' && g_log.sa_ind == (attrCode)P[0] && g_log.sa_sub == (uint8)(%s) && g_log.sa_val == (int16)(int32)((uint32)A + (uint32)(%s))' % (OFFS, OFFS)],
   'attr_set_slot: pops one value, consumes 1 parameter byte, one call setAttr(current slot, attribute, subindex = map offset for attach-to else 0, value = popped value + that offset) - the sum computed without signed overflow',
   extra_defs='#define OP_ASSUME ATTR_OK_PLAIN', subs=PD, unit_extra=", 'replay':'slotops'")
op('iattr_set_slot', 'IATTR_SET_SLOT', 1, 0, 2, ['setAttr', 'begin'], [], '*sp_, *dp_, __CPROVER_object_whole(&g_log)',
   ['*sp_ == __CPROVER_old(*sp_) - 1 && *dp_ == g_data + 2 && CONT && g_status == g_status0',
    calls(sa=1),
    SA_COMMON + ' && g_log.sa_ind == (attrCode)P[0] && g_log.sa_sub == P[1] && g_log.sa_val == (int16)(int32)((uint32)A + (uint32)(%s))' % OFFS],
   'iattr_set_slot: pops one value, consumes 2 parameter bytes, one call setAttr(current slot, attribute = param[0], subindex = param[1], value = popped value + map offset for attach-to)',
   extra_defs='#define OP_ASSUME ATTR_OK_IDX', subs=PD)

# ---- push_slot_attr / push_islot_attr
for (nm, en, psz, sub) in (('push_slot_attr', 'PUSH_SLOT_ATTR', 2, '0'), ('push_islot_attr', 'PUSH_ISLOT_ATTR', 3, 'P[2]')):
    op(nm, en, 0, 1, psz, ['getAttr', 'positionSlots', 'begin', 'end', 'currdir'], [], '*sp_, (*sp_)[1], *dp_, reg_->flags, g_status, __CPROVER_object_whole(&g_log)',
       ['*dp_ == g_data + %d && CONT' % psz, 'WINSTATUS(1)',
        'reg_->flags == (%s ? (int8)(g_flags0 | 1) : g_flags0)' % POSATTR,
        'g_log.n_ps == (%s ? 1 : 0) && (%s ==> %s)' % (NEEDPOS, NEEDPOS, PS_ARGS),
        'SLOT(1) == (Slot *)0 ==> (*sp_ == __CPROVER_old(*sp_) && %s)' % calls(ps='g_log.n_ps'),
        'SLOT(1) != (Slot *)0 ==> (*sp_ == __CPROVER_old(*sp_) + 1 && (*sp_)[0] == g_log.ga_ret && %s)' % calls(ga=1, ps='g_log.n_ps'),
        'SLOT(1) != (Slot *)0 ==> (g_log.ga_self == SLOT(1) && g_log.ga_seg == g_seg && g_log.ga_ind == (attrCode)P[0] && g_log.ga_sub == %s)' % sub],
       '%s: consumes %d parameter bytes; positions are refreshed first when a position attribute is read; the slot reference goes through slotat; a resolvable slot: one getAttr(slot, attribute, %s) whose result is the one cell pushed; an unresolvable one: nothing pushed (NULL tested), slot_offset_out_bounds when outside the window' % (nm, psz, 'param[2]' if sub != '0' else '0'),
       is_nonnull=False,
       extra_defs='#define OP_ASSUME %s' % ('(P[0] < gr_slatMax && (P[0] != gr_slatUserDefn || P[2] < g_numUser))' if sub != '0' else 'ATTR_OK_PLAIN'))

# ---- push_glyph_attr_obs / push_glyph_attr / push_att_to_gattr_obs / push_att_to_glyph_attr
for (nm, en, psz, ga, ref, att) in (('push_glyph_attr_obs', 'PUSH_GLYPH_ATTR_OBS', 2, '(unsigned)P[0]', 1, False), ('push_glyph_attr', 'PUSH_GLYPH_ATTR', 3, 'P16(0)', 2, False),
                                    ('push_att_to_gattr_obs', 'PUSH_ATT_TO_GATTR_OBS', 2, '(unsigned)P[0]', 1, True), ('push_att_to_glyph_attr', 'PUSH_ATT_TO_GLYPH_ATTR', 3, 'P16(0)', 2, True)):
    tgt = '(SLOT(%d)->m_parent ? SLOT(%d)->m_parent : SLOT(%d))' % (ref, ref, ref) if att else 'SLOT(%d)' % ref
    op(nm, en, 0, 1, psz, ['glyphAttr', 'gid', 'attachedTo'], [], '*sp_, (*sp_)[1], *dp_, g_status, __CPROVER_object_whole(&g_log)',
       ['*dp_ == g_data + %d && CONT' % psz, 'WINSTATUS(%d)' % ref,
        'SLOT(%d) == (Slot *)0 ==> (*sp_ == __CPROVER_old(*sp_) && %s)' % (ref, calls()),
        'SLOT(%d) != (Slot *)0 ==> (*sp_ == __CPROVER_old(*sp_) + 1 && (*sp_)[0] == (int32)g_log.gat_ret && %s)' % (ref, calls(gat=1)),
        'SLOT(%d) != (Slot *)0 ==> (g_log.gat_gid == %s->m_glyphid && g_log.gat_attr == %s)' % (ref, tgt, ga)],
       '%s: consumes %d parameter bytes, slot reference through slotat (NULL tested)%s; a resolvable slot: one glyphAttr(glyph of that slot, attribute < numAttrs: call-site obligation), result sign-extended into the one cell pushed; otherwise nothing pushed' % (nm, psz, ', redirected to the attachment parent when there is one (NULL parent tested)' if att else ''),
       is_nonnull=False,
       extra_defs='#define OP_ASSUME (%s < g_numGlyphAttrs)      /* c02_fetch_opcode: accepted ==> glyph attribute < numAttrs */' % ga)

# ---- push_glyph_metric / push_att_to_glyph_metric
for (nm, en, att) in (('push_glyph_metric', 'PUSH_GLYPH_METRIC', False), ('push_att_to_glyph_metric', 'PUSH_ATT_TO_GLYPH_METRIC', True)):
    tgt = '(SLOT(1)->m_parent ? SLOT(1)->m_parent : SLOT(1))' if att else 'SLOT(1)'
    op(nm, en, 0, 1, 3, ['getGlyphMetric', 'attachedTo'], [], '*sp_, (*sp_)[1], *dp_, g_status, __CPROVER_object_whole(&g_log)',
       ['*dp_ == g_data + 3 && CONT', 'WINSTATUS(1)',
        'SLOT(1) == (Slot *)0 ==> (*sp_ == __CPROVER_old(*sp_) && %s)' % calls(),
        'SLOT(1) != (Slot *)0 ==> (*sp_ == __CPROVER_old(*sp_) + 1 && (*sp_)[0] == g_log.gm_ret && %s)' % calls(gm=1),
        'SLOT(1) != (Slot *)0 ==> (g_log.gm_slot == %s && g_log.gm_metric == P[0] && g_log.gm_level == P[2] && g_log.gm_rtl == (bool)g_reg->direction)' % tgt],
       '%s: consumes 3 parameter bytes, slot reference through slotat (NULL tested)%s; a resolvable slot: one getGlyphMetric(slot, metric = param[0] < kgmetDescent: call-site obligation, level = param[2], direction register), the result is the one cell pushed; otherwise nothing pushed' % (nm, ', redirected to the attachment parent when there is one' if att else ''),
       is_nonnull=False,
       extra_defs='#define OP_ASSUME (P[0] < kgmetDescent)      /* c02_fetch_opcode: accepted ==> metric < kgmetDescent */')

# ---- push_feat / set_feat
FEAT_ARGS = 'g_log.%s_index == (int)g_seg->m_charinfo[SLOT(1)->m_original].m_featureid && g_log.%s_findex == P[0]'
op('push_feat', 'PUSH_FEAT', 0, 1, 2, ['getFeature', 'charinfo', 'original', 'fid'], [], '*sp_, (*sp_)[1], *dp_, g_status, __CPROVER_object_whole(&g_log)',
   ['*dp_ == g_data + 2 && CONT', 'WINSTATUS(1)',
    'SLOT(1) == (Slot *)0 ==> (*sp_ == __CPROVER_old(*sp_) && %s)' % calls(),
    'SLOT(1) != (Slot *)0 ==> (*sp_ == __CPROVER_old(*sp_) + 1 && (*sp_)[0] == (int32)g_log.gf_ret && %s)' % calls(gf=1),
    'SLOT(1) != (Slot *)0 ==> (%s)' % (FEAT_ARGS % ('gf', 'gf'))],
   'push_feat: consumes 2 parameter bytes, slot reference through slotat (NULL tested); a resolvable slot: reads the char-info of the slot\'s original character (inside the char-info array given original < numCharinfo), one getFeature(that character\'s feature-set id, feature = param[0] < numFeatures: call-site obligation), the result is the one cell pushed',
   is_nonnull=False, extra_defs='#define OP_ASSUME (P[0] < g_numFeatures)      /* c02_fetch_opcode: accepted ==> feature < numFeatures */\n#define NEED_CHARINFO')
op('set_feat', 'SET_FEAT', 1, 0, 2, ['setFeature', 'charinfo', 'original', 'fid'], [], '*sp_, *dp_, g_status, __CPROVER_object_whole(&g_log)',
   ['*dp_ == g_data + 2 && CONT', 'WINSTATUS(1)',
    'SLOT(1) == (Slot *)0 ==> (*sp_ == __CPROVER_old(*sp_) && %s)' % calls(),
    'SLOT(1) != (Slot *)0 ==> (*sp_ == __CPROVER_old(*sp_) - 1 && %s)' % calls(sf=1),
    'SLOT(1) != (Slot *)0 ==> (%s && g_log.sf_val == (uint32)A)' % (FEAT_ARGS % ('sf', 'sf'))],
   'set_feat: consumes 2 parameter bytes, slot reference through slotat (NULL tested); a resolvable slot: pops one value and calls setFeature(feature-set id of the slot\'s original character, feature = param[0] < numFeatures, value) once; an unresolvable slot: no pop, no call; no stack cell is written',
   is_nonnull=False, extra_defs='#define OP_ASSUME (P[0] < g_numFeatures)\n#define NEED_CHARINFO')

# ---- temp_copy
COPYF = ['m_next', 'm_prev', 'm_glyphid', 'm_realglyphid', 'm_original', 'm_before', 'm_after', 'm_index', 'm_parent', 'm_child', 'm_sibling', 'm_attLevel', 'm_bidiCls', 'm_bidiLevel', 'm_justs']
op('temp_copy', 'TEMP_COPY', 0, 0, 0, ['newSlot', 'userAttrs', 'numAttrs', 'markCopied'],
   ['g_cur <= (unsigned)g_smap->m_size      /* map < smap.end(): apply_analysis inserts TEMP_COPY only for contexts below the final _slotref (c02_code_apply) */',
    'g_fresh == (Slot *)0 || (g_fresh->m_userAttr == g_fresh_ua && g_is0 != g_fresh)'],
   '*sp_, (*sp_)[1], reg_->is, g_status, g_free, __CPROVER_object_whole(&g_log), g_smap->m_slot_map[g_cur])\n    __CPROVER_assigns(g_fresh != (Slot *)0: __CPROVER_object_whole(g_fresh), __CPROVER_object_whole(g_fresh_ua)',
   ['*dp_ == g_data && g_log.n_ns == 1',
    'TC_DIES ==> (g_status == died_early && __CPROVER_return_value == 0 && *sp_ == __CPROVER_old(*sp_) + 1 && (*sp_)[0] == 1 && reg_->is == g_seg->m_last)',
    'TC_DIES ==> g_smap->m_slot_map[g_cur] == __CPROVER_old(g_smap->m_slot_map[g_cur])',
    '!TC_DIES ==> (g_status == g_status0 && CONT && *sp_ == __CPROVER_old(*sp_) && reg_->is == g_is0)',
    '/* the map entry (and only it: frame) now names the fresh slot */\n    !TC_DIES ==> g_smap->m_slot_map[g_cur] == g_fresh',
    '/* the copy is flagged COPIED (C04: Slot::setAttr(attach-to) refuses flagged slots) and keeps its own user-attribute block */\n    !TC_DIES ==> (g_fresh->m_flags == (uint8)(g_is0->m_flags | COPIED) && g_fresh->m_userAttr == g_fresh_ua)',
    '!TC_DIES ==> (' + ' && '.join('g_fresh->%s == g_is0->%s' % (f, f) for f in COPYF) + ')',
    '!TC_DIES ==> (g_k >= g_numUser || g_fresh_ua[g_k] == g_is0->m_userAttr[g_k])'],
   'temp_copy: takes a slot from Segment::newSlot; dies (died_early, EXIT(1)) when none is available or there is no current slot (both tested before use); otherwise the fresh slot becomes a field-by-field copy of the current slot with its own user-attribute block (numUser cells copied, inside both blocks) and the COPIED flag, and replaces the map entry under the cursor - the only map entry written (cursor below smap.end()).  Frame: no slot of the stream, no link field, no other map entry, not the current-slot register is written (C03: the stream stays as it was; C04: no parent/child/sibling field of an existing slot changes, the copy is not entered in any child list and is marked so that nothing can attach to it)',
   is_nonnull=False, final="['C02','C03','C04']",
   extra_defs='#define TC_DIES (g_fresh == (Slot *)0 || g_is0 == (Slot *)0)\n#define NEED_FRESH')

# ---------------------------------------------------------------------------------------------------------------
out = []
w = out.append
w('''/* GENERATED by tools/gen_c02_slotops.py - do not edit by hand.
 * C02 - "running any bytecode of an accepted font never causes an out-of-bounds access or undefined behaviour": the slot,
 * attribute, glyph and feature opcode bodies of src/inc/opcodes.h (STARTOP(x)..ENDOP, extracted on every run) under the
 * macro environment of the direct-threaded interpreter (STARTOP / ENDOP / EXIT extracted from src/direct_machine.cpp; the label
 * `name: {` becomes a function header and the computed goto becomes `return !(COND)` exactly as in spec/c07_vm.c; the
 * call-threaded build compiles the same opcodes.h text - its environment is checked for the stack opcodes in c07_vm.c).
 * Not here because already under contract: stack opcodes incl. pop_ret / ret_zero / ret_true / push_proc_state / push_version
 * (c07_vm.c, both environments), insert / delete_ (c03_slots.c), put_copy (c04_forest.c), assoc (c05_assoc.c / c03_slots.c).
 * No body exists for NEXT_N, PUSH_IGLYPH_ATTR, PUT_SUBS2, PUT_SUBS3 (NILOP rows: unit c02_op_table); COPY_NEXT runs `next`.
 *
 * Per opcode: stack effect as the opcode table / the loader's depth analysis (kind=opeffects, unit c02_op_table), writes at most
 * the pushed cell, consumes exactly param_sz parameter bytes of an exact-size parameter object, every slot reference through
 * slotat() (extracted) inside the window [&smap[-1], smap.end()), NULL results tested where the code tests them, callees on
 * Slot / Segment / Silf / Face are stubs that assert the real callee's needs (call-site obligations) and log their arguments.
 */
#include "types.h"
''')
for o in OPS:
    defs = "'defines':['OP_%s','NSLOTS=3']," % o['name']
    if o['name'] == 'temp_copy':
        defs = "'defines_quick':['OP_temp_copy','NSLOTS=2','NUMAX=1'], 'defines_thorough':['OP_temp_copy','NSLOTS=3','NUMAX=3'],"
    w("/*@unit {'name':'c02_op_%s', 'props':%s, 'entry':'h_op', 'enforce':'%s', DEFS 'witness_defines':[], 'witness_vars':['w_depth','w_a','w_p','w_cur','w_size']%s,\n  'assumptions':ASSUME_%s,\n  'claims':%r}@*/\n"
      % (o['name'], o['final'], o['name'], o['unit_extra'], 'X', o['claim']))
    out[-1] = out[-1].replace('DEFS', defs)
w("/*@unit {'name':'c02_op_table', 'props':%s, 'entry':'h_table', 'defines':['OP_TABLE','NSLOTS=3'],\n  'claims':'opcode_table.h / opcodes.h against the contracts of this file: each covered table row names the body the contract was proved for (NEXT and COPY_NEXT both `next`), its param_sz is the number of parameter bytes the body consumes (CNTXT_ITEM: 2 + the data-skip byte), the syntactic stack effect the loader lemma c02_fetch_opcode uses (kind=opeffects) equals the (pops, pushes) of the contract, rows NEXT_N / PUSH_IGLYPH_ATTR / PUT_SUBS2 / PUT_SUBS3 have no implementation for either code kind, CNTXT_ITEM exists for constraint code only and the slot-modifying opcodes for action code only'}@*/\n" % PROPS)

w("/*@unit {'name':'c02_op_epilogue', 'props':['C02'], 'entry':'h_epilogue', 'defines':['OP_EPILOGUE','NSLOTS=3'], 'witness_defines':[], 'witness_vars':['w_cur','w_size'],\n  'assumptions':['the cursor is anywhere in [&smap[-1], smap.end()] - exactly what the NEXT body guarantees (c02_op_next); m_size <= MAX_SLOTS'],\n  'claims':'epilogue of direct_run (`__map = map; *__map = is;`): with the cursor anywhere NEXT can leave it the store of the current slot stays inside SlotMap::m_slot_map and the cursor is handed back (EXPECTED TO FAIL on the unchanged tree: cursor == smap.end() with m_size == 64 is one cell past the array - see report)'}@*/\n")
w('''
/*@include slots.tc@*/
typedef void * instr;
/*@extract {'file':'src/inc/Machine.h', 'kind':'range', 'start': r'typedef int32\\s+stack_t', 'end': r';', 'end_inclusive': True}@*/
/*@extract {'file':'src/inc/Machine.h', 'kind':'range', 'start': r'static size_t const STACK_ORDER', 'end': r';', 'end_inclusive': True,
            'subs':[[r'static size_t const', 'enum {', 1], [r';', '};', 1]]}@*/
/*@extract {'file':'src/inc/Machine.h', 'kind':'range', 'start': r'enum status_t \\{', 'end': r'\\};', 'end_inclusive': True, 'pre':'typedef ', 'subs':[[r'\\};', '} status_t;', 1]]}@*/
/*@extract {'file':'src/inc/Machine.h', 'kind':'range', 'start': r'enum \\{VARARGS', 'end': r';', 'end_inclusive': True}@*/
/*@extract {'file':'src/inc/Machine.h', 'kind':'range', 'start': r'enum opcode \\{', 'end': r'\\};', 'end_inclusive': True}@*/
/*@extract {'file':'src/inc/Machine.h', 'kind':'range', 'start': r'struct opcode_t\\s*\\{', 'end': r'\\};', 'end_inclusive': True, 'pre':'typedef ', 'subs':[[r'\\};', '} opcode_t;', 1]]}@*/
/*@extract {'file':'include/graphite2/Segment.h', 'kind':'range', 'start': r'enum gr_attrCode \\{', 'end': r'\\};', 'end_inclusive': True}@*/
/*@extract {'file':'src/inc/GlyphFace.h', 'kind':'range', 'start': r'enum metrics \\{', 'end': r'\\};', 'end_inclusive': True}@*/
typedef enum gr_attrCode attrCode;
#define attrCode(x) ((attrCode)(x))
#define uint32_t(x) ((uint32_t)(x))
#define int32_t(x)  ((int32_t)(x))

#if !defined(OP_TABLE) && !defined(OP_EPILOGUE)
/* struct regbank of call_machine.cpp = the register locals of direct_run; C++ references are pointers here */
typedef struct regbank { slotref is; slotref *map; SlotMap *smap_; slotref *map_base; const instr **ip_; uint8 direction; int8 flags; status_t *status_; } regbank;

/* ------------------------------------------------------------------ SlotMap members used by the bodies (src/inc/Rule.h), extracted */
/*@extract {'file':'src/inc/Rule.h', 'sig': r'size_t SlotMap::size\\(\\) const', 'emit':'static size_t SlotMap_size_0(const SlotMap *self)', 'self':['m_size']}@*/
/*@extract {'file':'src/inc/Rule.h', 'sig': r'Slot \\* \\* SlotMap::begin\\(\\)', 'emit':'static Slot **SlotMap_begin_0(SlotMap *self)', 'self':['m_slot_map']}@*/
/*@extract {'file':'src/inc/Rule.h', 'sig': r'Slot \\* \\* SlotMap::end\\(\\)', 'emit':'static Slot **SlotMap_end_0(SlotMap *self)', 'self':['m_slot_map','m_size']}@*/
/* Slot * & SlotMap::operator[](int n): the reference result is a pointer here (declared rewrite of the return statement) */
/*@extract {'file':'src/inc/Rule.h', 'sig': r'Slot \\* & SlotMap::operator\\[\\]\\(int n\\)', 'emit':'static Slot **SlotMap_ref(SlotMap *self, int n)', 'subs':[[r'return m_slot_map', 'return &m_slot_map', 1]], 'self':['m_slot_map']}@*/
/* CBMC flags a negative pointer difference (map == &smap[-1] minus smap.begin()) although both point into m_slot_map: the
   difference is taken on the offsets, same object asserted (declared rewrite `map - X` -> PDIFF(map, X), FRAMEWORK.md item 18) */
static ptrdiff_t pdiff_cells(Slot **a, Slot **b) { __CPROVER_assert(SAME(a, b), "pointer difference inside one object"); return ((ptrdiff_t)OFF(a) - (ptrdiff_t)OFF(b)) / (ptrdiff_t)sizeof(Slot *); }
#define PDIFF(a, b) pdiff_cells(a, b)
#define M_size_0  SlotMap_size_0
#define M_begin_0 SlotMap_begin_0
#define M_end_0   SlotMap_end_0

/* ------------------------------------------------------------------ ghost state set by the harness */
stack_t *g_stack;            /* Machine::_stack : STACK_MAX + 2*STACK_GUARD cells */
const byte *g_data;          /* the parameter bytes of this instruction (exact-size object) */
status_t g_status, g_status0;
regbank *g_reg; SlotMap *g_smap; Segment *g_seg;
unsigned g_cur;              /* the map cursor is &m_slot_map[g_cur]: 0 = &smap[-1], m_size + 1 = smap.end() */
Slot *g_is0; int8 g_flags0;
const instr *g_code, *g_ip; size_t g_ipk;
Slot *g_free, *g_fresh; int16 *g_fresh_ua; size_t g_k;
uint16 g_numClasses, g_numGlyphAttrs, g_numFeatures; uint8 g_numUser;      /* the limits the loader validated against (struct limits of Code.cpp) */
#define SB        (g_stack + STACK_GUARD)
#define DEPTH(sp) ((long)((sp) - SB))
#define P g_data
#define P16(i)    ((unsigned)(((unsigned)P[i] << 8) | P[(i) + 1]))
#define REF(i)    ((int)(int8)P[i])
#define A         __CPROVER_old((*sp_)[0])
/* slotat(x) by specification: the entry when map + x lies in [&smap[-1], smap.end()), else NULL + slot_offset_out_bounds */
#define RIDX(i)   ((long)g_cur + REF(i))
#define INWIN(i)  (RIDX(i) >= 0 && RIDX(i) <= (long)g_smap->m_size)
#define SLOT(i)   (INWIN(i) ? g_smap->m_slot_map[INWIN(i) ? RIDX(i) : 0] : (Slot *)0)
#define WINSTATUS(i) (g_status == (INWIN(i) ? g_status0 : slot_offset_out_bounds))
#define CONT      (__CPROVER_return_value == ((DEPTH(*sp_) / (long)STACK_MAX) == 0))
/* what the loader lets through for slot attributes (c02_fetch_opcode): code < gr_slatMax, the un-indexed forms never name
   gr_slatUserDefn, the indexed forms only with subindex < attrid[code] (numUser for gr_slatUserDefn) - used in its weaker form
   "a user-attribute access has subindex < numUser", which is what Slot::setAttr / getAttr need (c02_slot_userattr) */
#define ATTR_OK_PLAIN (P[0] < gr_slatMax && P[0] != gr_slatUserDefn)
#define ATTR_OK_IDX   (P[0] < gr_slatMax && (P[0] != gr_slatUserDefn || P[1] < g_numUser))

/* ------------------------------------------------------------------ callees outside the target: stubs that assert the callee's needs and log the call */
struct calllog {
    int n_sa, n_ga, n_ps, n_gcg, n_fci, n_sg, n_gat, n_gm, n_gf, n_sf, n_ns;
    Slot *sa_self; Segment *sa_seg; attrCode sa_ind; uint8 sa_sub; int16 sa_val; const SlotMap *sa_map;
    const Slot *ga_self; const Segment *ga_seg; attrCode ga_ind; uint8 ga_sub; int ga_ret; bool ga_before_set;
    const void *ps_font; Slot *ps_first, *ps_last; bool ps_rtl, ps_first_call;
    uint16 gcg_cid, gcg_off, gcg_ret, fci_cid, fci_gid, fci_ret;
    Slot *sg_self; Segment *sg_seg; uint16 sg_gid;
    uint16 gat_gid, gat_attr; int16 gat_ret;
    Slot *gm_slot; uint8 gm_metric, gm_level; bool gm_rtl; int32 gm_ret;
    int gf_index; uint8 gf_findex; uint32 gf_ret;
    int sf_index; uint8 sf_findex; uint32 sf_val;
} g_log;
int nondet_int(void); unsigned short nondet_ushort(void); short nondet_short(void); unsigned nondet_unsigned(void); bool nondet_bool(void); long nondet_long(void);
#define ATTR_NEED(ind, sub) ((unsigned)(ind) < gr_slatMax && ((ind) != gr_slatUserDefn || (sub) < g_numUser))
/* void Slot::setAttr(Segment *seg, attrCode ind, uint8 subindex, int16 value, const SlotMap & map) */
static void Slot_setAttr(Slot *self, Segment *sg, attrCode ind, uint8 subindex, int16 value, const SlotMap *m)
{
    __CPROVER_assert(self != (Slot *)0, "Slot::setAttr is called on a slot (non-NULL receiver)");
    __CPROVER_assert(ATTR_NEED(ind, subindex), "Slot::setAttr: attribute code < gr_slatMax and a user attribute only with subindex < numUser");
    g_log.n_sa++; g_log.sa_self = self; g_log.sa_seg = sg; g_log.sa_ind = ind; g_log.sa_sub = subindex; g_log.sa_val = value; g_log.sa_map = m;
}
#define M_setAttr_5(s, sg, ind, sub, v, m) Slot_setAttr(s, sg, ind, sub, v, &(m))
/* int Slot::getAttr(const Segment *seg, attrCode ind, uint8 subindex) const */
static int Slot_getAttr(const Slot *self, const Segment *sg, attrCode ind, uint8 subindex)
{
    __CPROVER_assert(self != (const Slot *)0, "Slot::getAttr is called on a slot (non-NULL receiver)");
    __CPROVER_assert(ATTR_NEED(ind, subindex), "Slot::getAttr: attribute code < gr_slatMax and a user attribute only with subindex < numUser");
    g_log.n_ga++; g_log.ga_self = self; g_log.ga_seg = sg; g_log.ga_ind = ind; g_log.ga_sub = subindex; g_log.ga_before_set = (g_log.n_sa == 0);
    g_log.ga_ret = nondet_int();
    return g_log.ga_ret;
}
#define M_getAttr_3 Slot_getAttr
/* Position Segment::positionSlots(const Font *font, Slot *first, Slot *last, bool isRtl, bool isFinal = true): the result is discarded */
static void Segment_positionSlots(Segment *sg, const void *font, Slot *first, Slot *last, bool rtl)
{
    __CPROVER_assert(sg == g_seg, "Segment::positionSlots on the segment of this run");
    g_log.n_ps++; g_log.ps_font = font; g_log.ps_first = first; g_log.ps_last = last; g_log.ps_rtl = rtl; g_log.ps_first_call = (g_log.n_ga == 0 && g_log.n_sa == 0);
}
#define M_positionSlots_4 Segment_positionSlots
/* uint16 Segment::getClassGlyph(uint16 cid, uint16 offset) const -> Silf::getClassGlyph: needs cid < numClasses (c02_get_class_glyph) */
static uint16 Segment_getClassGlyph(const Segment *sg, uint16 cid, uint16 offset)
{
    __CPROVER_assert(sg == g_seg && cid < g_numClasses, "Segment::getClassGlyph: class index < numClasses");
    g_log.n_gcg++; g_log.gcg_cid = cid; g_log.gcg_off = offset; g_log.gcg_ret = nondet_ushort();
    return g_log.gcg_ret;
}
#define M_getClassGlyph_2 Segment_getClassGlyph
/* uint16 Segment::findClassIndex(uint16 cid, uint16 gid) const -> Silf::findClassIndex: needs cid < numClasses (c02_find_class_index) */
static uint16 Segment_findClassIndex(const Segment *sg, uint16 cid, uint16 gid)
{
    __CPROVER_assert(sg == g_seg && cid < g_numClasses, "Segment::findClassIndex: class index < numClasses");
    g_log.n_fci++; g_log.fci_cid = cid; g_log.fci_gid = gid; g_log.fci_ret = nondet_ushort();
    return g_log.fci_ret;
}
#define M_findClassIndex_2 Segment_findClassIndex
/* void Slot::setGlyph(Segment *seg, uint16 glyphid, const GlyphFace *theGlyph = NULL) */
static void Slot_setGlyph(Slot *self, Segment *sg, uint16 glyphid)
{
    __CPROVER_assert(self != (Slot *)0, "Slot::setGlyph is called on a slot (non-NULL receiver)");
    g_log.n_sg++; g_log.sg_self = self; g_log.sg_seg = sg; g_log.sg_gid = glyphid;
}
#define M_setGlyph_2 Slot_setGlyph
/* int16 Segment::glyphAttr(uint16 gid, uint16 gattr) const: glyphSafe(gid) guards the glyph id, the attribute index must be < numAttrs */
static int16 Segment_glyphAttr(const Segment *sg, uint16 gid, uint16 gattr)
{
    __CPROVER_assert(sg == g_seg && gattr < g_numGlyphAttrs, "Segment::glyphAttr: glyph attribute < numAttrs");
    g_log.n_gat++; g_log.gat_gid = gid; g_log.gat_attr = gattr; g_log.gat_ret = nondet_short();
    return g_log.gat_ret;
}
#define M_glyphAttr_2 Segment_glyphAttr
/* int32 Segment::getGlyphMetric(Slot *iSlot, uint8 metric, uint8 attrLevel, bool rtl) const: dereferences iSlot */
static int32 Segment_getGlyphMetric(const Segment *sg, Slot *iSlot, uint8 metric, uint8 attrLevel, bool rtl)
{
    __CPROVER_assert(sg == g_seg && iSlot != (Slot *)0, "Segment::getGlyphMetric: non-NULL slot");
    __CPROVER_assert(metric < kgmetDescent, "Segment::getGlyphMetric: metric below the limit the loader validated (kgmetDescent)");
    g_log.n_gm++; g_log.gm_slot = iSlot; g_log.gm_metric = metric; g_log.gm_level = attrLevel; g_log.gm_rtl = rtl; g_log.gm_ret = nondet_int();
    return g_log.gm_ret;
}
#define M_getGlyphMetric_4 Segment_getGlyphMetric
/* uint32 Segment::getFeature(int index, uint8 findex) const: m_feats[index] - index must be a feature-set id of this segment; featureRef(findex) guards findex itself */
static uint32 Segment_getFeature(const Segment *sg, int index, uint8 findex)
{
    __CPROVER_assert(sg == g_seg && findex < g_numFeatures, "Segment::getFeature: feature < numFeatures");
    g_log.n_gf++; g_log.gf_index = index; g_log.gf_findex = findex; g_log.gf_ret = nondet_unsigned();
    return g_log.gf_ret;
}
#define M_getFeature_2 Segment_getFeature
/* void Segment::setFeature(int index, uint8 findex, uint32 val) */
static void Segment_setFeature(Segment *sg, int index, uint8 findex, uint32 val)
{
    __CPROVER_assert(sg == g_seg && findex < g_numFeatures, "Segment::setFeature: feature < numFeatures");
    g_log.n_sf++; g_log.sf_index = index; g_log.sf_findex = findex; g_log.sf_val = val;
}
#define M_setFeature_3 Segment_setFeature
/* Slot *Segment::newSlot(): a reset slot with its own user-attribute block, or NULL (growth cap / allocation failure: c02_new_slot) */
static Slot *Segment_newSlot(Segment *sg) { __CPROVER_assert(sg == g_seg, "Segment::newSlot on the segment of this run"); g_log.n_ns++; Slot *r = g_free; g_free = (Slot *)0; return r; }
#define M_newSlot_0 Segment_newSlot
/* int Segment::numAttrs() const { return m_silf->numUser(); } */
static int Segment_numAttrs(const Segment *sg) { (void)sg; return g_numUser; }
#define M_numAttrs_0 Segment_numAttrs

/* ------------------------------------------------------------------ contracts */
#define OPSIG(name) bool name(const byte **dp_, stack_t **sp_, stack_t *const sb, regbank *reg_)
#define PRE(pops) \\
    __CPROVER_requires(sb == SB && SAME(*sp_, g_stack) && DEPTH(*sp_) >= (pops) && DEPTH(*sp_) < STACK_MAX) \\
    __CPROVER_requires(*dp_ == g_data && reg_ == g_reg && reg_->status_ == &g_status && g_status == g_status0) \\
    __CPROVER_requires(reg_->smap_ == g_smap && g_smap->segment_ == g_seg && g_smap->m_size <= 64 && g_cur <= (unsigned)g_smap->m_size + 1u) \\
    __CPROVER_requires(reg_->map == &g_smap->m_slot_map[g_cur] && reg_->map_base == &g_smap->m_slot_map[1 + g_smap->m_precontext] && reg_->is == g_is0 && reg_->flags == g_flags0)
''')
for o in OPS:
    w('#ifdef OP_%s\n#define OPFN %s\n#define OP_POPS %d\n#define OP_PUSHES %d\n#define OP_PSZ %d\n' % (o['name'], o['name'], o['pops'], o['pushes'], o['psz']))
    if o['is_nonnull']:
        w('#define OP_IS_NONNULL      /* the body dereferences `is` without a test: a rule action runs with a current slot (assumption, see unit) */\n')
    if o['extra_defs']:
        w(o['extra_defs'] + '\n')
    import re as _re
    _m = _re.search(r'WINSTATUS\((\d)\)', ' '.join(o['ensures']))
    if _m:
        w('#define OP_REFPOS %s      /* parameter byte that holds the slot reference */\n' % _m.group(1))
    w('OPSIG(%s)\n    PRE(%d)\n' % (o['name'], o['pops']))
    for r in o['requires']:
        w('    __CPROVER_requires(%s)\n' % r)
    w('    __CPROVER_assigns(%s)\n' % o['assigns'])
    for e in o['ensures']:
        if e.startswith('/*'):
            c, e2 = e.split('\n', 1)
            w('    %s\n    __CPROVER_ensures(%s)\n' % (c, e2.strip()))
        else:
            w('    __CPROVER_ensures(%s)\n' % e)
    w('    ;\n#endif\n')

w('''
/* ------------------------------------------------------------------ the macro environment of direct_machine.cpp, extracted (as in c07_vm.c) */
#define registers const byte ** dp_, stack_t ** sp_, stack_t * const sb, regbank * reg_
/*@extract {'file':'src/direct_machine.cpp', 'kind':'define', 'name':'STARTOP', 'subs':[[r'name: \\{', 'bool name(registers) { {', 1]]}@*/
/*@extract {'file':'src/direct_machine.cpp', 'kind':'define', 'name':'ENDOP',
            'subs':[[r'goto \\*\\((.*?) \\? &&end : \\*\\+\\+ip\\);', r'return !(\\1); }', 1], [r'Machine::', '', 1]]}@*/
/*@extract {'file':'src/direct_machine.cpp', 'kind':'define', 'name':'EXIT', 'subs':[[r'goto end;', 'return false;', 1]]}@*/
#define dp   (*dp_)
#define sp   (*sp_)
#define reg  (*reg_)
#define smap (*reg.smap_)
#define seg  (*smap.segment_)
#define is   reg.is
#define map  reg.map
#define mapb reg.map_base
#define ip   (*reg.ip_)
#define flags reg.flags
#define dir  reg.direction
#define status (*reg.status_)
/* helper macros of opcodes.h itself */
/*@extract {'file':'src/inc/opcodes.h', 'kind':'define', 'name':'use_params'}@*/
/*@extract {'file':'src/inc/opcodes.h', 'kind':'define', 'name':'declare_params'}@*/
/*@extract {'file':'src/inc/opcodes.h', 'kind':'define', 'name':'push'}@*/
/*@extract {'file':'src/inc/opcodes.h', 'kind':'define', 'name':'pop'}@*/
/*@extract {'file':'src/inc/opcodes.h', 'kind':'define', 'name':'slotat', 'subs':[[r'&smap\\[-1\\]', 'SlotMap_ref(&smap, -1)', 0], [r'smap\\.end\\(\\)', 'SlotMap_end_0(&smap)', 0], [r'Machine::', '', 0]]}@*/
/*@extract {'file':'src/inc/opcodes.h', 'kind':'define', 'name':'DIE', 'subs':[[r'seg\\.last\\(\\)', 'Segment_last_0(&seg)', 0], [r'Machine::', '', 0]]}@*/
/*@extract {'file':'src/inc/opcodes.h', 'kind':'define', 'name':'POSITIONED'}@*/
''')
for o in OPS:
    subs = o['subs']
    w("#ifdef OP_%s\n/*@extract {'if':'OP_%s', 'file':'src/inc/opcodes.h', 'kind':'startop', 'name':'%s', 'subs':%r, 'methods':%r}@*/\n#endif\n" % (o['name'], o['name'], o['name'], subs, o['methods']))
w('''#undef dp
#undef sp
#undef reg
#undef smap
#undef seg
#undef is
#undef map
#undef mapb
#undef ip
#undef flags
#undef dir
#undef status
#undef POSITIONED

/* ------------------------------------------------------------------ harness for one opcode */
#ifndef OP_ASSUME
#define OP_ASSUME 1
#endif
#ifndef OP_EXTRA_DATA
#define OP_EXTRA_DATA 0
#endif
void h_op(void)
{
    struct calllog zero_log = {0}; g_log = zero_log;
    long w_depth = nondet_long();
    int32 w_a = nondet_int();
    byte w_p[5];
    __CPROVER_assume(w_depth >= OP_POPS && w_depth < STACK_MAX);
    stack_t *stack = malloc(sizeof(stack_t) * (STACK_MAX + 2 * STACK_GUARD));     /* Machine::_stack */
    __CPROVER_assume(stack != NULL);
    g_stack = stack;
    stack_t *spv = stack + STACK_GUARD + w_depth;
    if (w_depth >= 1) spv[0] = w_a;
    /* the universe of slots: a pool of NSLOTS slots with arbitrary contents, link fields inside the pool or NULL */
    havoc_links();
    Segment *sg = malloc(sizeof(Segment)); SlotMap *sm = malloc(sizeof(SlotMap)); regbank *rb = malloc(sizeof(regbank));
    __CPROVER_assume(sg && sm && rb);
    g_seg = sg; g_smap = sm; g_reg = rb;
    sg->m_first = pick_slot(); sg->m_last = pick_slot();
    sm->segment_ = sg;
    /* slot-map entries: arbitrary pointer values (malloc contents); only the entry the opcode may dereference - the one its slot
       reference names, when inside the window - is known to be a slot or NULL (last pushed slot / cell before the first may be NULL).
       A dereference of any other entry is a failing pointer obligation. */
    unsigned w_size = sm->m_size, w_cur = nondet_unsigned();
    __CPROVER_assume(w_size <= 64);                                                 /* m_size <= MAX_SLOTS: unit c02_run_fsm */
    __CPROVER_assume(sm->m_precontext <= w_size);
    __CPROVER_assume(w_cur <= w_size + 1u);                                         /* the cursor moves between &smap[-1] and smap.end(): NEXT (here), INSERT (c03_insert) */
    g_cur = w_cur;
    sm->m_highwater = pick_slot(); sm->m_highpassed = nondet_bool();
    g_numClasses = nondet_ushort(); g_numGlyphAttrs = nondet_ushort(); g_numFeatures = nondet_ushort(); g_numUser = (uint8)nondet_unsigned();
#ifdef NEED_CHARINFO
    /* C05: before / after / original of every slot are char-info indices of the segment (c03_insert, c05_*); exact-size char-info array */
    unsigned nci = nondet_unsigned(); __CPROVER_assume(nci >= 1 && nci <= 6);
    sg->m_numCharinfo = nci; sg->m_charinfo = malloc(nci * sizeof(CharInfo)); __CPROVER_assume(sg->m_charinfo);
    for (int i = 0; i < NSLOTS; ++i) __CPROVER_assume(g_pool[i].m_original < nci);
#endif
    rb->is = pick_slot();
#ifdef OP_IS_NONNULL
    __CPROVER_assume(rb->is != (Slot *)0);
#endif
#ifdef NEED_FRESH
    /* Segment::newSlot hands out a slot that is not in use (own object) with its own block of numUser cells, or NULL */
    unsigned w_nu = g_numUser; __CPROVER_assume(w_nu <= NUMAX);
    Slot *fresh = nondet_bool() ? malloc(sizeof(Slot)) : (Slot *)0;
    int16 *fua = malloc(w_nu * sizeof(int16)), *iua = malloc(w_nu * sizeof(int16));
    __CPROVER_assume(fua && iua);
    if (fresh) { *fresh = nondet_Slot(); fresh->m_userAttr = fua; }
    if (rb->is) rb->is->m_userAttr = iua;                                           /* slot i of a block owns numUser cells: unit c02_new_slot */
    g_free = fresh; g_fresh = fresh; g_fresh_ua = fua; g_k = nondet_unsigned();
#endif
    g_is0 = rb->is;
    rb->smap_ = sm; rb->map = &sm->m_slot_map[w_cur]; rb->map_base = &sm->m_slot_map[1 + sm->m_precontext];
    rb->direction = (uint8)nondet_unsigned(); rb->flags = (int8)nondet_unsigned(); g_flags0 = rb->flags;
    rb->status_ = &g_status; g_status = (status_t)nondet_int(); g_status0 = g_status;
    w_p[0] = (byte)nondet_unsigned(); w_p[1] = (byte)nondet_unsigned(); w_p[2] = (byte)nondet_unsigned(); w_p[3] = (byte)nondet_unsigned(); w_p[4] = (byte)nondet_unsigned();
    byte *data = malloc(OP_PSZ + OP_EXTRA_DATA);                                    /* exactly the parameter bytes (plus, CNTXT_ITEM, the data bytes of the skipped instructions) */
    __CPROVER_assume(data != NULL);
    for (int i = 0; i < 5; ++i) if (i < OP_PSZ) data[i] = w_p[i];
    g_data = data;
    __CPROVER_assume(OP_ASSUME);
#ifdef OP_REFPOS
    { long ridx = (long)w_cur + (int8)w_p[OP_REFPOS]; if (ridx >= 0 && ridx <= (long)w_size) sm->m_slot_map[ridx] = pick_slot(); }
#endif
#ifdef OP_cntxt_item
    /* the instruction array: n instrs, this CNTXT_ITEM at index k; emit_opcode set iskip to the number of instructions it emitted
       for the skipped range and at least one instruction follows (jump_past_end test + the terminating return) */
    size_t ninstr = nondet_unsigned(), k = nondet_unsigned();
    __CPROVER_assume(ninstr >= 2 && ninstr <= 600 && k + (size_t)w_p[1] + 1 < ninstr);
    const instr *codev = malloc(ninstr * sizeof(instr)); __CPROVER_assume(codev);
    g_code = codev; g_ipk = k; g_ip = codev + k;
#endif
    rb->ip_ = &g_ip;
    const byte *dpv = data;
#ifdef NEED_FRESH
    /* one call per concrete numUser (FRAMEWORK.md item 14: the size of the user-attribute memcpy is then a constant) */
#define RUN(K) if (w_nu == K) { g_numUser = K; bool cont = OPFN(&dpv, &spv, stack + STACK_GUARD, rb); (void)cont; }
    RUN(0) RUN(1)
#if NUMAX >= 3
    RUN(2) RUN(3)
#endif
#else
    bool cont = OPFN(&dpv, &spv, stack + STACK_GUARD, rb);
    (void)cont;
#endif
    (void)w_size;
    CANARY();
}
#endif /* !OP_TABLE && !OP_EPILOGUE */

#ifdef OP_EPILOGUE
/* ------------------------------------------------------------------ the epilogue of direct_run: `end: __map = map; *__map = is;` */
unsigned nondet_unsigned(void);
void h_epilogue(void)
{
    havoc_links();
    SlotMap *sm = malloc(sizeof(SlotMap)); __CPROVER_assume(sm);
    unsigned w_size = sm->m_size, w_cur = nondet_unsigned();
    __CPROVER_assume(w_size <= 64);                            /* m_size <= MAX_SLOTS: unit c02_run_fsm (64 is reached: 63 pushes in the FSM loop + the final pushSlot) */
    __CPROVER_assume(w_cur <= w_size + 1u);                    /* all that NEXT guarantees: map <= smap.end() (unit c02_op_next) */
    const unsigned short size0 = sm->m_size, ctx0 = sm->m_precontext;
    slotref is = pick_slot();
    slotref *map = &sm->m_slot_map[w_cur];
    slotref *map_out = (slotref *)0, **map_ref = &map_out;     /* slotref * & __map */
#define __map (*map_ref)
/*@extract {'if':'OP_EPILOGUE', 'file':'src/direct_machine.cpp', 'kind':'range', 'scope': r'const void \\* direct_run\\(', 'start': r'__map\\s*= map;', 'end': r'\\*__map = is;', 'end_inclusive': True}@*/
#undef __map
    __CPROVER_assert(map_out == &sm->m_slot_map[w_cur], "the caller gets the cursor back");
    __CPROVER_assert(w_cur > 64 || sm->m_slot_map[w_cur <= 64 ? w_cur : 0] == is, "the current slot is stored in the cell under the cursor");
    /* CBMC 6.11 resolves a store through &m_slot_map[65] to the member array and drops it instead of updating the next member, so
       the bound is stated on the offsets */
    __CPROVER_assert(OFF(map_out) + sizeof(Slot *) <= OFF(&sm->m_slot_map[0]) + sizeof sm->m_slot_map, "the cell written by *__map = is is one of the MAX_SLOTS+1 cells of m_slot_map");
    __CPROVER_assert(sm->m_size == size0 && sm->m_precontext == ctx0, "the store *__map = is lands inside m_slot_map[MAX_SLOTS+1], not on the members behind it (m_size, m_precontext)");
    CANARY();
}
#endif

#ifdef OP_TABLE
/* ------------------------------------------------------------------ opcode_table.h, included for real; each implementation name becomes its spelling */
#define do_(name) ((void *)#name)
#include "inc/opcode_table.h"
/*@extract {'if':'OP_TABLE', 'kind':'opeffects', 'file':'src/inc/opcodes.h', 'table':'src/inc/opcode_table.h'}@*/
static int streq(const char *a, const char *b) { int i = 0; for (; i < 32; ++i) { if (a[i] != b[i]) return 0; if (!a[i]) return 1; } return 1; }
#define ACTION_ONLY(k, nm) (opcode_table[k].impl[0] != (void *)0 && streq((const char *)opcode_table[k].impl[0], nm) && opcode_table[k].impl[1] == (void *)0)
#define BOTH(k, nm)        (opcode_table[k].impl[0] != (void *)0 && streq((const char *)opcode_table[k].impl[0], nm) && opcode_table[k].impl[1] != (void *)0 && streq((const char *)opcode_table[k].impl[1], nm))
void h_table(void)
{
''')
ACTION_ONLY = {'next', 'put_glyph_8bit_obs', 'put_glyph', 'put_subs_8bit_obs', 'put_subs', 'attr_set', 'iattr_set', 'attr_add', 'attr_sub', 'iattr_add', 'iattr_sub',
               'attr_set_slot', 'iattr_set_slot', 'set_feat', 'temp_copy'}
for o in OPS:
    n, e = o['name'], o['enum']
    if n == 'cntxt_item':
        w('    __CPROVER_assert(opcode_table[CNTXT_ITEM].impl[0] == (void *)0 && opcode_table[CNTXT_ITEM].impl[1] != (void *)0 && streq((const char *)opcode_table[CNTXT_ITEM].impl[1], "cntxt_item"), "CNTXT_ITEM: constraint code only, body cntxt_item");\n')
        w('    __CPROVER_assert(opcode_table[CNTXT_ITEM].param_sz + 1 == %d, "CNTXT_ITEM: 2 parameter bytes in the table + the data-skip byte emit_opcode appends == bytes the body consumes");\n' % o['psz'])
        w('    __CPROVER_assert(OP_EFFECT[CNTXT_ITEM].required == 0 && OP_EFFECT[CNTXT_ITEM].net == 1, "CNTXT_ITEM: syntactic effect == contract (push only when jumping; the loader counts it as 0: see NET() in c02_decoder.c)");\n')
        continue
    w('    __CPROVER_assert(%s(%s, "%s"), "table row %s names body %s for the right code kind(s)");\n' % ('ACTION_ONLY' if n in ACTION_ONLY else 'BOTH', e, n, e, n))
    w('    __CPROVER_assert(opcode_table[%s].param_sz == %d, "table row %s: param_sz == parameter bytes the body consumes");\n' % (e, o['psz'], e))
    w('    __CPROVER_assert(OP_EFFECT[%s].required == %d && OP_EFFECT[%s].net == %d, "%s: syntactic stack effect used by the loader lemma == (pops, pushes) of the contract");\n' % (e, o['pops'], e, o['pushes'] - o['pops'], e))
w('''    __CPROVER_assert(ACTION_ONLY(COPY_NEXT, "next") && opcode_table[COPY_NEXT].param_sz == 0, "COPY_NEXT runs the body of next");
    __CPROVER_assert(opcode_table[NEXT_N].impl[0] == (void *)0 && opcode_table[NEXT_N].impl[1] == (void *)0, "NEXT_N has no implementation (always refused by the loader)");
    __CPROVER_assert(opcode_table[PUSH_IGLYPH_ATTR].impl[0] == (void *)0 && opcode_table[PUSH_IGLYPH_ATTR].impl[1] == (void *)0, "PUSH_IGLYPH_ATTR has no implementation");
    __CPROVER_assert(opcode_table[PUT_SUBS2].impl[0] == (void *)0 && opcode_table[PUT_SUBS2].impl[1] == (void *)0, "PUT_SUBS2 has no implementation");
    __CPROVER_assert(opcode_table[PUT_SUBS3].impl[0] == (void *)0 && opcode_table[PUT_SUBS3].impl[1] == (void *)0, "PUT_SUBS3 has no implementation");
    __CPROVER_assert(sizeof(opcode_table) / sizeof(opcode_table[0]) == MAX_OPCODE + 1, "the table has one entry per on-disk opcode plus TEMP_COPY");
    CANARY();
}
#endif
''')

ASSUME_COMMON = ["slot map: m_size <= MAX_SLOTS (c02_run_fsm), cursor between &smap[-1] and smap.end() (NEXT: this file; INSERT: c03_insert), any entry may be NULL",
                 "slots: a pool of 3 slot objects with arbitrary contents (the bodies are loop-free and touch at most the current slot, one referenced slot and its parent), link fields inside the pool or NULL",
                 "callees on Slot / Segment (setAttr, getAttr, setGlyph, positionSlots, getClassGlyph, findClassIndex, glyphAttr, getGlyphMetric, getFeature, setFeature, newSlot, numAttrs) are stubs: arbitrary results, no effect on the VM registers, stack, slot map or slots; their needs are asserted at the call",
                 "parameter values: only what c02_fetch_opcode proves for an accepted opcode (class / glyph attribute / feature / metric / slot attribute limits)"]
text = ''.join(out)
for o in OPS:
    a = list(ASSUME_COMMON)
    if o['is_nonnull']:
        a.append("the current slot `is` is non-NULL when a slot-modifying opcode runs (loader: test_context keeps such opcodes inside the rule's slots; Pass::testConstraint: those map entries are non-NULL) - not proved here")
    if o['name'] in ('push_feat', 'set_feat'):
        a.append("C05: slot->original() < numCharinfo for every slot (else Segment::charinfo returns NULL and the body dereferences it)")
    if o['name'] == 'cntxt_item':
        a.append("iskip / dskip are the values emit_opcode wrote: number of instructions resp. data bytes emitted for the skipped byte range, at least one instruction follows (jump_past_end); pre_context + slot inside the slot map (F5 of c02_code_fetch + Pass::testConstraint; not for the pass-level constraint with rule_length > 65408)")
    if o['name'] == 'temp_copy':
        a.append("numUser <= 1 (quick) / <= 3 (thorough) in the harness, one call per concrete value (the size of the user-attribute memcpy is then a constant); the fresh slot is its own object with a block of exactly numUser cells (c02_new_slot)")
    text = text.replace("'assumptions':ASSUME_X", "'assumptions':%r" % a, 1)
open(os.path.join(HERE, 'spec', 'c02_slotops.c'), 'w').write(text)
print('wrote spec/c02_slotops.c with %d opcode units + table unit' % len(OPS))
