#!/usr/bin/env python3
"""Print the prompt handed to an independent mutation sub-agent for one property.
Usage: mut_prompt.py C11 /tmp/mut_C11     (nothing from /verif except the property text is given)"""
import json, sys
pid, wt = sys.argv[1], sys.argv[2]
p = next(json.loads(l) for l in open('/verif/properties.jsonl') if json.loads(l)['id'] == pid)
print(f"""You are helping test a verification effort for the open-source library silnrsi/graphite (Graphite2, a smart-font shaping engine in C++).
You get ONE semantic property of the library and your own scratch git worktree of the repository at {wt} (a detached checkout of the pinned commit). Work ONLY inside {wt} (and /tmp/{pid}_scratch if you need more room). Do NOT read or write anything under /verif or /repo, and do not use the network (there is none).

THE PROPERTY ({pid}: {p['title']})
Statement: {p['statement']}
Quantifier: {p['quantifier']['text']}
Why the existing tests cannot settle it: {p['why_tests_cant']}
Code anchors: files {', '.join(p['anchors']['files'])}; mechanisms: {'; '.join(m['name']+' @ '+str(m.get('where')) for m in p['anchors']['mechanism'])}

YOUR TASK
Produce TWO different, independent source changes ("mutants") to the library sources under {wt}/src (or {wt}/include) each of which BREAKS this property while
  (a) the library still compiles, and
  (b) the existing test suite still passes exactly as before: build with
        cmake -G Ninja -B {wt}/_build -S {wt} -DCMAKE_BUILD_TYPE=RelWithDebInfo && cmake --build {wt}/_build
      and run
        ctest --test-dir {wt}/_build -j8 --timeout 900
      On the unmodified tree 87 tests pass and exactly these 6 always fail (ignore them): padaukcmp1 chariscmp1 chariscmp2 annacmp1 schercmp1 awamicmp1. With your change the same 87 must still pass.
Each change should be REALISTIC (the kind of slip or "optimisation" a maintainer could plausibly commit: an off-by-one in a bounds test, a dropped check, a wrong constant, a reordered pair of statements, a changed comparison, a missed case, a wrong operand order, two cooperating edits that each look fine alone) and SUBTLE: it must need something specific to manifest (an unusual or malformed input, a particular multi-step sequence of API calls, a corner value, a crash/failure at a particular point) rather than something ordinary use or the test fonts would expose at once. Keep each change small (a few lines). The two mutants should touch different functions/mechanisms of the property where possible.

For EACH mutant also write a DEMONSTRATION: a small standalone C or C++ program (or script) that uses the library built from the worktree (link against {wt}/_build/src/libgraphite2.so, or #include the library .cpp files directly if you need internals; fonts are in {wt}/tests/fonts) and that FAILS (non-zero exit, sanitizer report, assertion, wrong output) with the change applied and PASSES (exit 0) on the unmodified tree. Compiling the demo with -fsanitize=address,undefined is fine and encouraged for memory-safety properties (then build the library objects with the sanitizer too, e.g. by compiling the src/*.cpp you need directly into the demo; note src/direct_machine.cpp and src/call_machine.cpp are alternatives - use only one of them). You must actually run both directions and confirm them yourself.

DELIVERABLES: create the directory {wt}/_mut/ and for k in 1,2 write
  {wt}/_mut/m<k>/patch.diff      - `git diff` of the change relative to the pinned commit (library sources only; must apply with `git apply` on a clean checkout)
  {wt}/_mut/m<k>/demo.*          - the demonstration source (plus any input files it needs, small)
  {wt}/_mut/m<k>/run_demo.sh     - a script taking the path of a graphite source tree as $1 that builds what it needs from THAT tree in a temp dir and runs the demo; exit 0 = property held, non-zero = broken. It must be self-contained and work on a clean checkout with or without the patch.
  {wt}/_mut/m<k>/meta.json       - {{"property":"{pid}","summary":"what was changed and why it breaks the property","needs":"what specific input/sequence/condition is needed for it to manifest","files":[...],"tests_pass":true,"demo_fails_with_patch":true,"demo_passes_without_patch":true,"commands_run":[...]}}
Leave the worktree's tracked files CLEAN at the end (git -C {wt} checkout -- . ; the _mut and _build directories are untracked and may stay). Do not commit anything.
In your final message, summarise the two mutants in a few lines each (file, function, what breaks, what is needed to see it) and report the confirmations you ran. If you could only produce one good mutant, say so.""")
