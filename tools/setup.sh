#!/bin/sh
# setup: nothing to build - the framework is python + the pre-installed cbmc tool chain.  Sanity-check the tools.
set -e
cd "$(dirname "$0")/.."
for t in cbmc goto-cc goto-instrument g++ python3; do command -v $t >/dev/null || { echo "missing tool $t"; exit 1; }; done
cbmc --version
mkdir -p build evidence replay_out
python3 tools/gen_manifest.py >/dev/null
echo setup ok
