#!/usr/bin/env python3
"""tools/promote_units.py spec/<file>.c ...  - switch units developed under a placeholder property ('props':['DEV_x'],
'final_props':[...]) over to the properties they belong to (props := final_props; the final_props key is removed)."""
import re, sys
for p in sys.argv[1:]:
    s = open(p).read()
    def f(m):
        return "'props':%s," % m.group(2)
    s2, n = re.subn(r"'props':\s*\[\s*'DEV_\w+'\s*\]\s*,\s*'final_props':\s*(\[[^\]]*\])\s*,", lambda m: "'props':%s," % m.group(1), s)
    left = len(re.findall(r"'DEV_\w+'", s2))
    open(p, 'w').write(s2)
    print('%s: %d unit(s) promoted, %d DEV reference(s) left' % (p, n, left))
