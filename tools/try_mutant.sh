#!/bin/sh
# tools/try_mutant.sh <patch.diff> <PID> [extra bin/check args]  - apply a seeded change to /repo, run the check, undo it.
P=$(readlink -f "$1"); PID=$2; shift 2
git -C /repo apply "$P" || { echo "patch does not apply"; exit 3; }
/verif/bin/check $PID --no-evidence "$@"; rc=$?
git -C /repo checkout -- .
echo "exit=$rc"
exit $rc
