#!/bin/sh
# tools/try_mutant.sh <patch.diff> <PID> [extra bin/check args]
# Applies a seeded change to a PRIVATE scratch worktree of /repo (so concurrent checks of the real /repo are not
# disturbed), runs the check against it (VERIF_REPO), removes the worktree.  (The registered checks themselves always run
# against /repo; to test against /repo itself: git -C /repo apply <patch>; bin/check ...; git -C /repo checkout -- .)
P=$(readlink -f "$1"); PID=$2; shift 2
WT=/tmp/tm_$$_$PID
git -C /repo worktree add -f --detach "$WT" HEAD >/dev/null 2>&1 || { echo "cannot create scratch worktree"; exit 3; }
git -C "$WT" apply "$P" || { echo "patch does not apply"; git -C /repo worktree remove --force "$WT"; exit 3; }
VERIF_REPO="$WT" /verif/bin/check $PID --no-evidence "$@"; rc=$?
git -C /repo worktree remove --force "$WT" >/dev/null 2>&1; rm -rf "$WT"; git -C /repo worktree prune
echo "exit=$rc"
exit $rc
