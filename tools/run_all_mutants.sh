#!/bin/bash
# Regression of the checks against every stored seeded change: tools/run_all_mutants.sh [dir ...]
# For each seeded/<PID>_m<k>[_w2] applies patch.diff to a private worktree, runs the quick check(s) named in
# seeded/<dir>/check (default: the property of the directory name), and writes seeded/RESULTS.txt.
cd "$(dirname "$0")/.."
dirs=("$@"); [ ${#dirs[@]} -eq 0 ] && dirs=(seeded/C*_m*)
out=seeded/RESULTS.txt; tmp=$(mktemp)
for d in "${dirs[@]}"; do
    d=${d%/}; name=$(basename "$d"); pid=${name%%_*}
    props=$pid; [ -f "$d/check" ] && props=$(cat "$d/check")
    res=""; caught=no
    for p in $props; do
        log=$(tools/try_mutant.sh "$d/patch.diff" "$p" 2>&1)
        ex=$(echo "$log" | sed -n 's/^exit=//p' | tail -1)
        v=$(echo "$log" | grep -E '^VIOLATION' | sed -E 's/.*unit=([^ ]+) obligation=([^ ]+).*/\1:\2/' | head -3 | tr '\n' ' ')
        res="$res $p:exit=$ex [$v]"
        [ "$ex" = 1 ] && caught=yes
    done
    echo "$name caught=$caught$res" | tee -a "$tmp"
done
if [ $# -eq 0 ]; then mv "$tmp" "$out"; else cat "$tmp" >> "$out"; rm -f "$tmp"; fi
