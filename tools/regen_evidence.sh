#!/bin/bash
# Re-run every registered quick check against /repo's working tree (rewrites evidence/<id>.json) and validate the evidence files.
cd "$(dirname "$0")/.."
rc=0
for P in $(python3 -c "import json;print(' '.join(c['property_id'] for c in json.load(open('MANIFEST.json'))['checks']))"); do
    bin/check $P --tier quick > build/evid_$P.log 2>&1; r=$?
    echo "$P exit=$r $(grep -E '^\[' build/evid_$P.log | tail -1)"
    [ $r -ne 0 ] && rc=1
done
python3-vt - <<'PY'
import json, jsonschema, glob
sch = json.load(open('/root/.vp/EVIDENCE.schema.json'))
for f in sorted(glob.glob('evidence/*.json')):
    e = json.load(open(f)); jsonschema.validate(e, sch)
    print(f, e['tier'], e['level'], e['coverage']['obligations'], e['coverage']['discharged'], 'violations', len(e.get('violations', [])))
PY
exit $rc
