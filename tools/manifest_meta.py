# claims and not-applicable reasons; MANIFEST.json is generated from this by tools/gen_manifest.py
HOOK_COMMITS = []
PENDING = 'not claimed yet: the contract units for this property are not built/stable at this commit (see DESIGN.md section 4 for the plan); no check is registered so nothing is claimed'
CLAIMS = {
 'C20': {'category': 'proof', 'design_ref': 'DESIGN.md section 4, C20',
         'technique': 'CBMC code contracts (dfcc) on extracted C; loop-free full-domain proofs',
         'text': 'Every clause of the statement is a contract clause on the real bodies of gr_str_to_tag, gr_tag_to_str, zeropad and the script-strip prefix of makeAndInitialize, discharged for all inputs (strings of any length up to the harness bound in exact-size buffers, all 2^32 tags); the inverse and padding clauses are lemmas over those contracts only.',
         'note': 'Trusted: CBMC, the extraction rewrites (casts, min/max template instantiation), assumed libc strlen contract; string length bounded by MAXN=4096 in the harness (function is loop-free). The callers that apply zeropad/script-strip (gr_face_featureval_for_lang, gr_face_find_fref, gr_make_seg) are not under contract beyond the extracted normalisation code itself.'},
}
CLAIMS['C11'] = {'category': 'proof', 'design_ref': 'DESIGN.md section 4, C11',
  'technique': 'CBMC code contracts + loop contracts (dfcc) on extracted C with a lock-step ghost reference decoder',
  'text': 'The three decode steps, the three validate functions and the counting loop of gr_count_unicode_characters (both the end-delimited and the NUL-terminated form, all three encodings) are proved against a reference decoder written from the Unicode Standard: every read inside the exact-size buffer, count equal to the reference count, error reported exactly when the reference meets an ill-formed sequence first, error pointer inside the buffer, termination. Loops are closed by inductive loop contracts (buffer length symbolic).',
  'note': 'Not decided: the encoding-equivalence of whole segments (needs the whole shaper; only the decoding half is proved here and in C12). Known finding (not repaired): UTF-8/UTF-32 encoded surrogate code points are accepted as well-formed (strict units, KNOWN-FINDING lines). Trusted: CBMC, extraction rewrites (iterator operators mapped onto the extracted operator bodies), harness bound MAXN on the buffer length (256 quick / 4096 thorough).'}
CLAIMS['C12'] = {'category': 'proof', 'design_ref': 'DESIGN.md section 4, C12',
  'technique': 'CBMC code contracts + loop contract (dfcc) on extracted C; ghost call log on the appendSlot stub',
  'text': 'process_utf_data (the loop that consumes the text) is proved for all three encodings on NUL-terminated strings in exact-size buffers with arbitrary nChars: no read beyond the terminating NUL, stop at the first NUL or after nChars characters, one appendSlot/char-info per character consumed, return value = characters consumed; Segment::read_text is proved to store that number as the char-info and slot count. The decode step it relies on is the C11 get contract (its units are part of this check).',
  'note': 'Assumed contracts: Cmap lookup / findPseudo (any result, no side effect; C13), appendSlot (ghost log only). gr_make_seg -> makeAndInitialize -> read_text call chain itself is not under contract (two straight-line calls). A genuine defect found by this contract (no NUL stop) was repaired in /repo (fix: a6369e61).'}
NOT_APPLICABLE = {p: PENDING for p in ['C01','C02','C03','C04','C05','C06','C07','C11','C12','C13','C14','C16','C17','C18','C19','C20']}
NOT_APPLICABLE.update({
 'C08': 'history independence quantifies over all API histories; as a contract it is a whole-program frame condition over ~10 kLOC of C++ outside CBMC\'s C subset; the provable pieces (empty frames of the face-reading lookups) are reported under C01/C13/C18',
 'C09': 'quantifies over thread schedules; CBMC contract instrumentation is sequential and race freedom is not a per-function pre/post fact',
 'C10': 'relational property between whole loading configurations over all fonts and texts; the only per-function part (cached vs direct cmap lookup) is proved under C13',
 'C15': 'floating-point scaling up to rounding: exact equality is false and a rounding-error bound over recursive Slot::finalise is outside what CBMC discharges; the data-flow clause is not a contract',
})
