# claims and not-applicable reasons; MANIFEST.json is generated from this by tools/gen_manifest.py
HOOK_COMMITS = []
PENDING = 'not claimed yet: the contract units for this property are not built/stable at this commit (see DESIGN.md section 4 for the plan); no check is registered so nothing is claimed'
CLAIMS = {
 'C20': {'category': 'proof', 'design_ref': 'DESIGN.md section 4, C20',
         'technique': 'CBMC code contracts (dfcc) on extracted C; loop-free full-domain proofs',
         'text': 'Every clause of the statement is a contract clause on the real bodies of gr_str_to_tag, gr_tag_to_str, zeropad and the script-strip prefix of makeAndInitialize, discharged for all inputs (strings of any length up to the harness bound in exact-size buffers, all 2^32 tags); the inverse and padding clauses are lemmas over those contracts only.',
         'note': 'Trusted: CBMC, the extraction rewrites (casts, min/max template instantiation), assumed libc strlen contract; string length bounded by MAXN=4096 in the harness (function is loop-free). The callers that apply zeropad/script-strip (gr_face_featureval_for_lang, gr_face_find_fref, gr_make_seg) are not under contract beyond the extracted normalisation code itself.'},
}
NOT_APPLICABLE = {p: PENDING for p in ['C01','C02','C03','C04','C05','C06','C07','C11','C12','C13','C14','C16','C17','C18','C19','C20']}
NOT_APPLICABLE.update({
 'C08': 'history independence quantifies over all API histories; as a contract it is a whole-program frame condition over ~10 kLOC of C++ outside CBMC\'s C subset; the provable pieces (empty frames of the face-reading lookups) are reported under C01/C13/C18',
 'C09': 'quantifies over thread schedules; CBMC contract instrumentation is sequential and race freedom is not a per-function pre/post fact',
 'C10': 'relational property between whole loading configurations over all fonts and texts; the only per-function part (cached vs direct cmap lookup) is proved under C13',
 'C15': 'floating-point scaling up to rounding: exact equality is false and a rounding-error bound over recursive Slot::finalise is outside what CBMC discharges; the data-flow clause is not a contract',
})
