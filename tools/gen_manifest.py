#!/usr/bin/env python3
"""Regenerate /verif/MANIFEST.json from tools/manifest_meta.py (claims) - keeps the file valid by construction."""
import json, os, sys
HERE = os.path.dirname(os.path.dirname(os.path.abspath(__file__)))
sys.path.insert(0, os.path.join(HERE, 'tools'))
from manifest_meta import CLAIMS, NOT_APPLICABLE, HOOK_COMMITS
sys.path.insert(0, os.path.join(HERE, 'lib'))
import driver
checks = []
for pid in sorted(CLAIMS):
    c = CLAIMS[pid]
    if not driver.units_for(pid):
        raise SystemExit('claimed property %s has no units' % pid)
    checks.append({
        'property_id': pid,
        'quick_cmd': 'bin/check %s --tier quick' % pid,
        'thorough_cmd': 'bin/check %s --tier thorough' % pid,
        'evidence_file': 'evidence/%s.json' % pid,
        'replay_cmd_template': 'bin/check %s --replay {path}' % pid,
        'engine': 'cbmc-contracts',
        'level_claimed': {'category': c['category'], 'text': c['text'], 'design_ref': c['design_ref']},
        'level_note': c['note'],
        'technique': c['technique'],
    })
ids = [json.loads(l)['id'] for l in open(os.path.join(HERE, 'properties.jsonl'))]
na = [{'property_id': p, 'reason': NOT_APPLICABLE[p]} for p in ids if p not in CLAIMS]
man = {
    'version': 1,
    'setup_cmd': 'sh tools/setup.sh',
    'hooks': {'guard': 'GRAPHITE2_VERIF', 'enable': 'none needed: specifications live out of tree (spec/*.c) and bodies are extracted from /repo on every run; no hook commits',
              'baseline_off_cmd': 'cmake -G Ninja -S /repo -B /repo/_build -DCMAKE_BUILD_TYPE=RelWithDebInfo && cmake --build /repo/_build && ctest --test-dir /repo/_build -j8 --timeout 900',
              'source_commits': HOOK_COMMITS, 'add_only': True},
    'engines': [{'name': 'cbmc-contracts', 'path': 'lib/driver.py', 'serves_properties': sorted(CLAIMS),
                 'kind_free_text': 'contract-based deductive verification: CBMC 6.11 code contracts (goto-instrument --dfcc --enforce-contract / --replace-call-with-contract / --apply-loop-contracts) on C translation units extracted mechanically from /repo by lib/xtract.py on every run; native ASan/UBSan replay of counterexamples against the real C++'}],
    'checks': checks,
    'not_applicable': na,
    'notes': 'See DESIGN.md. exit 0 = all obligations discharged; exit 1 = VIOLATION (failing obligation, replayed natively where the verifier gives a counterexample); exit 2 = undecided (extraction/tool failure), never a verdict. Genuine defects repaired in /repo as fix: commits are listed in known-findings.txt.',
}
json.dump(man, open(os.path.join(HERE, 'MANIFEST.json'), 'w'), indent=1)
print('MANIFEST.json: %d checks, %d not_applicable' % (len(checks), len(na)))
