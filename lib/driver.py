#!/usr/bin/env python3
"""driver - builds and discharges the contract units of one property.

  bin/check <PID> [--tier quick|thorough] [--unit NAME] [--keep] [--list]
  bin/check <PID> --replay <replay-file>

exit 0 : every obligation of every unit discharged (known findings are printed, not counted)
exit 1 : a violated obligation that known-findings.txt does not list  (VIOLATION line on stdout)
exit 2 : the check could not decide (extraction rule did not fire, tool error, timeout) - never a verdict
"""
import argparse, concurrent.futures as cf, glob, hashlib, json, os, re, resource, shutil, subprocess, sys, tempfile, time

HERE = os.path.dirname(os.path.dirname(os.path.abspath(__file__)))
sys.path.insert(0, os.path.join(HERE, 'lib'))
import xtract  # noqa: E402

REPO = os.environ.get('VERIF_REPO', '/repo')
SPEC = os.path.join(HERE, 'spec')
SHIM = os.path.join(HERE, 'shim')
BUILD_ROOT = os.path.join(HERE, 'build')
BUILD = BUILD_ROOT   # replaced by a per-run directory in main() so that concurrent checks never share files
EVID = os.path.join(HERE, 'evidence')
REPLAY_OUT = os.path.join(HERE, 'replay_out')
KNOWN = os.path.join(HERE, 'known-findings.txt')
CORES = int(os.environ.get('VERIF_JOBS', '16'))
MAX_VIOLATION_LINES = int(os.environ.get('VERIF_MAX_VIOLATION_LINES', '8'))

DEFAULT_CHECKS = ['--bounds-check', '--pointer-check', '--div-by-zero-check', '--signed-overflow-check',
                  '--undefined-shift-check', '--pointer-primitive-check']
# NOTE --pointer-overflow-check deliberately off (see DESIGN 3.3): out-of-object pointer arithmetic without
# dereference is treated as "flat address space" (assumption listed in evidence).


IGNORED_DESCRIPTIONS = ('pointer relation: pointer outside object bounds',)


class ToolError(Exception):
    pass


def limits():
    try:
        resource.setrlimit(resource.RLIMIT_AS, (12 << 30, 12 << 30))
    except Exception:
        pass
    os.setsid()


def run(cmd, timeout, cwd=None, out=None):
    t0 = time.time()
    try:
        p = subprocess.run(cmd, cwd=cwd, stdout=subprocess.PIPE if out is None else out, stderr=subprocess.STDOUT if out is None else subprocess.PIPE,
                           timeout=timeout, preexec_fn=limits)
        return p.returncode, (p.stdout if out is None else p.stderr).decode('utf-8', 'replace'), time.time() - t0
    except subprocess.TimeoutExpired as e:
        return -9, 'TIMEOUT after %ss' % timeout, time.time() - t0


def load_templates():
    """-> list of (template_path, [unit dicts])"""
    res = []
    for p in sorted(glob.glob(os.path.join(SPEC, '*.c'))):
        try:
            units = xtract.scan_units(open(p).read())
        except Exception as e:       # a template under construction must not break the checks of other properties
            sys.stderr.write('warning: cannot parse unit directives of %s: %s\n' % (p, e))
            continue
        for u in units:
            u['_template'] = p
        res.append((p, units))
    return res


def units_for(pid):
    out = []
    for p, units in load_templates():
        for u in units:
            if pid in u.get('props', []):
                out.append(u)
    return out


def tier_val(u, key, tier, default=None):
    if key + '_' + tier in u:
        return u[key + '_' + tier]
    return u.get(key, default)


def cbmc_version():
    try:
        return subprocess.run(['cbmc', '--version'], stdout=subprocess.PIPE).stdout.decode().strip()
    except Exception:
        return 'unknown'


def parse_cbmc_json(path):
    try:
        d = json.load(open(path))
    except Exception as e:
        raise ToolError('cannot parse cbmc json output: %s' % e)
    results = None
    msgs = []
    for e in d:
        if isinstance(e, dict):
            if 'result' in e:
                results = e['result']
            elif 'messageText' in e:
                msgs.append((e.get('messageType', ''), e['messageText']))
    return results, msgs


def flatten_value(prefix, v, out):
    if v is None:
        return
    if 'elements' in v:
        for el in v['elements']:
            flatten_value('%s[%s]' % (prefix, el.get('index')), el.get('value'), out)
    elif 'members' in v:
        for mb in v['members']:
            flatten_value('%s.%s' % (prefix, mb.get('name')), mb.get('value'), out)
    elif 'data' in v:
        out[prefix] = v['data']


def witness_from_trace(trace, vars_):
    """Collect the last assignment to each (flattened) witness variable whose base name is in vars_."""
    w = {}
    for st in trace or []:
        if st.get('stepType') != 'assignment':
            continue
        lhs = st.get('lhs', '')
        base = re.split(r'[.\[]', lhs, 1)[0]
        if base not in vars_:
            continue
        # only assignments made inside the harness function
        lhs = re.sub(r'\[(\d+)l?\]', r'[\1]', lhs)
        tmp = {}
        flatten_value(lhs, st.get('value'), tmp)
        w.update(tmp)
    return w


def merge_parts(u, parts):
    """Merge the results of the per-function runs of a unit that enforces several contracts."""
    res = dict(parts[0])
    res['unit'] = u['name']
    res['enforce'] = u.get('enforce')
    for k in ('obligations', 'discharged', 'unknown', 'flat_address_space_uses'):
        res[k] = sum(p.get(k, 0) or 0 for p in parts)
    res['time_s'] = round(sum(p.get('time_s', 0) or 0 for p in parts), 2)
    res['solver_time_s'] = round(sum(p.get('solver_time_s', 0) or 0 for p in parts), 2)
    res['failures'] = [f for p in parts for f in p.get('failures', [])]
    byc = {}
    for p in parts:
        for k, v in (p.get('by_class') or {}).items():
            byc[k] = byc.get(k, 0) + v
    res['by_class'] = byc
    res['samples'] = [x for p in parts for x in p.get('samples', [])][:6]
    res['checker_cmd'] = ' ;; '.join(p.get('checker_cmd') or '' for p in parts)
    res['canary'] = 'FAILURE' if all(p.get('canary') == 'FAILURE' for p in parts) else next((p.get('canary') for p in parts if p.get('canary') != 'FAILURE'), None)
    if any(p['status'] == 'failed' for p in parts):
        res['status'] = 'failed'
    else:
        bad = next((p for p in parts if p['status'] != 'ok'), None)
        res['status'] = bad['status'] if bad else 'ok'
        res['detail'] = bad.get('detail') if bad else None
    return res


def build_unit(u, tier, extra_defs=(), tag='', trace=False):
    """Extract, compile, instrument, run cbmc for one unit.  Returns a result dict."""
    enf = u.get('enforce')
    if isinstance(enf, list) and len(enf) > 1:
        # goto-instrument --dfcc checks ONE contract per run (with several --enforce-contract options only the first is
        # enforced, silently): a unit that names several functions is run once per function and the results are merged
        parts = []
        for f in enf:
            u2 = dict(u)
            u2['enforce'] = f
            parts.append(build_unit(u2, tier, extra_defs, tag + '.' + f, trace))
        return merge_parts(u, parts)
    name = u['name']
    bdir = os.path.join(BUILD, name + tag)
    shutil.rmtree(bdir, ignore_errors=True)
    os.makedirs(bdir)
    res = {'unit': name, 'kind': u.get('kind', 'proof'), 'template': os.path.relpath(u['_template'], HERE),
           'enforce': u.get('enforce'), 'replace': u.get('replace', []), 'entry': u['entry'], 'backend': None,
           'status': 'error', 'obligations': 0, 'discharged': 0, 'failures': [], 'time_s': 0.0, 'extracts': [],
           'canary': None, 'by_class': {}, 'assumes': [], 'samples': []}
    t0 = time.time()
    defs = list(tier_val(u, 'defines', tier, []) or []) + list(extra_defs) + ['UNIT_' + name]
    defmap = {d.split('=')[0]: (d.split('=', 1)[1] if '=' in d else True) for d in defs}
    try:
        ctext, _, infos = xtract.expand_template(REPO, open(u['_template']).read(), defmap, SPEC)
    except xtract.ExtractError as e:
        res['status'] = 'extract-error'
        res['detail'] = str(e)
        res['time_s'] = time.time() - t0
        return res
    res['extracts'] = infos
    src = os.path.join(bdir, 'x.c')
    open(src, 'w').write(ctext)
    # scan for assumptions in the generated text belonging to this unit (reported, not judged)
    res['assumes'] = sorted(set(m.group(0)[:160] for m in re.finditer(r'__CPROVER_assume\s*\([^;]*;', ctext)))[:40]
    a_gb, b_gb = os.path.join(bdir, 'a.gb'), os.path.join(bdir, 'b.gb')
    cmd = ['goto-cc', '--function', u['entry'], '-I', SHIM, '-I', SPEC, '-I', os.path.join(REPO, 'src'), '-I', os.path.join(REPO, 'include')] + ['-D' + d for d in defs] + [src, '-o', a_gb]
    rc, out, _ = run(cmd, 300)
    open(os.path.join(bdir, 'goto-cc.log'), 'w').write(out)
    if rc != 0 or not os.path.exists(a_gb):
        res['status'] = 'compile-error'
        res['detail'] = out[-1500:]
        res['time_s'] = time.time() - t0
        return res
    enforce = u.get('enforce')
    enforce = [enforce] if isinstance(enforce, str) else (enforce or [])
    gi = ['goto-instrument', '--dfcc', u['entry']]
    for f in enforce:
        gi += ['--enforce-contract', f]
    for f in u.get('replace', []):
        gi += ['--replace-call-with-contract', f]
    has_loop_contracts = '__CPROVER_loop_invariant' in ctext and u.get('loop_contracts', True)
    if has_loop_contracts:
        gi += ['--apply-loop-contracts']
    gi += [a_gb, b_gb]
    if enforce or u.get('replace') or has_loop_contracts:
        rc, out, _ = run(gi, 600)
        open(os.path.join(bdir, 'goto-instrument.log'), 'w').write(out)
        if rc != 0 or not os.path.exists(b_gb):
            res['status'] = 'instrument-error'
            res['detail'] = out[-1500:]
            res['time_s'] = time.time() - t0
            return res
    else:
        shutil.copy(a_gb, b_gb)
    backend = tier_val(u, 'backend', tier, 'sat')
    checks = list(DEFAULT_CHECKS)
    for c in u.get('no_checks', []):
        if c in checks:
            checks.remove(c)
        checks.append('--no-' + c[2:])        # several checks are on by default in cbmc 6
    checks += u.get('checks', [])
    cb = ['cbmc', b_gb, '--json-ui'] + checks
    unwind = tier_val(u, 'unwind', tier)
    if unwind:
        cb += ['--unwind', str(unwind), '--unwinding-assertions']
    for us in tier_val(u, 'unwindset', tier, []) or []:
        cb += ['--unwindset', us]
    if backend == 'cvc5':
        cb += ['--cvc5']
    elif backend == 'z3':
        cb += ['--z3']
    elif backend == 'cadical':
        cb += ['--sat-solver', 'cadical']
    elif backend == 'kissat':
        cb += ['--external-sat-solver', 'kissat']
    cb += ['--object-bits', str(u.get('object_bits', 10))]
    if trace:
        cb += ['--trace']
    res['backend'] = {'sat': 'cbmc built-in SAT (minisat2/cadical default)', 'cvc5': 'cvc5 (SMT2)', 'z3': 'z3 (SMT2)', 'cadical': 'cadical', 'kissat': 'kissat'}.get(backend, backend)
    res['checker_cmd'] = ' '.join(gi[:-2] + ['a.gb', 'b.gb']) + ' ; ' + ' '.join(['cbmc', 'b.gb'] + cb[2:])
    timeout = tier_val(u, 'timeout', tier, 1500 if tier == 'quick' else 7200)
    outj = os.path.join(bdir, 'cbmc.json')
    with open(outj, 'wb') as fo:
        rc, err, dt = run(cb, timeout, out=fo)
    res['solver_time_s'] = round(dt, 2)
    if rc == -9:
        res['status'] = 'timeout'
        res['detail'] = 'cbmc timeout after %ss' % timeout
        res['time_s'] = time.time() - t0
        return res
    try:
        results, msgs = parse_cbmc_json(outj)
    except ToolError as e:
        res['status'] = 'tool-error'
        res['detail'] = str(e) + ' rc=%s %s' % (rc, err[-500:])
        res['time_s'] = time.time() - t0
        return res
    alltext = '\n'.join(t for _, t in msgs)
    # cbmc leaves obligations UNKNOWN when they sit behind an obligation that failed in the same run (here: behind an
    # ignored flat-address-space relation or behind a real failure).  Re-run exactly those obligations until none is left.
    for _round in range(4):
        if results is None:
            break
        unk = [r['property'] for r in results if r['status'] == 'UNKNOWN']
        if not unk or trace:
            break
        cb2 = list(cb)
        for pn in unk:
            cb2 += ['--property', pn]
        outj2 = os.path.join(bdir, 'cbmc.%d.json' % (_round + 2))
        with open(outj2, 'wb') as fo:
            rc2, err2, dt2 = run(cb2, timeout, out=fo)
        res['solver_time_s'] = round(res['solver_time_s'] + dt2, 2)
        if rc2 == -9:
            break
        try:
            results2, msgs2 = parse_cbmc_json(outj2)
        except ToolError:
            break
        if not results2:
            break
        upd = {r['property']: r for r in results2}
        progressed = False
        for i, r in enumerate(results):
            if r['status'] == 'UNKNOWN' and r['property'] in upd and upd[r['property']]['status'] != 'UNKNOWN':
                results[i] = upd[r['property']]
                progressed = True
        if not progressed:
            break
    if results is None:
        res['status'] = 'tool-error'
        errs = ' | '.join(t for ty, t in msgs if ty == 'ERROR')
        res['detail'] = 'no result block; rc=%s; %s' % (rc, errs[-1200:] or alltext[-800:])
        res['time_s'] = time.time() - t0
        return res
    if re.search(r'ignoring (forall|exists|quantifier)', alltext):
        res['status'] = 'tool-error'
        res['detail'] = 'back end ignored a quantifier: result not trusted'
        res['time_s'] = time.time() - t0
        return res
    n = d = 0
    fails = []
    unknown = 0
    canary = None
    byc = {}
    for r in results:
        desc = r.get('description', '')
        if desc.startswith('CANARY'):
            if r['property'].startswith(u['entry'] + '.'):       # only the canary of this unit's harness counts
                canary = r['status']
            continue
        n += 1
        cls = re.sub(r'\.\d+$', '', r['property'])
        cls = cls.split('.')[-1] if '.' in cls else cls
        byc[cls] = byc.get(cls, 0) + 1
        if r['status'] == 'SUCCESS':
            d += 1
        elif r['status'] == 'FAILURE' and any(desc.startswith(x) for x in IGNORED_DESCRIPTIONS):
            # flat-address-space assumption (DESIGN 3.3): relational operators / arithmetic on a pointer that has left its
            # object without being dereferenced.  Counted, reported in the evidence, not a verdict.
            n -= 1
            res['flat_address_space_uses'] = res.get('flat_address_space_uses', 0) + 1
        elif r['status'] == 'FAILURE':
            loc = r.get('sourceLocation', {})
            f = {'obligation': r['property'], 'description': desc, 'line': loc.get('line'), 'function': loc.get('function')}
            if trace:
                f['witness'] = witness_from_trace(r.get('trace'), set(u.get('witness_vars', ['w'])))
            fails.append(f)
        else:
            unknown += 1
    res.update(obligations=n, discharged=d, failures=fails, canary=canary, by_class=byc, unknown=unknown)
    res['samples'] = [{'obligation': r['property'], 'description': r.get('description', ''), 'status': r['status']}
                      for r in results if re.search(r'postcondition|loop_invariant_step|precondition|assertion', r['property'])][:6]
    res['time_s'] = round(time.time() - t0, 2)
    # vacuity guards
    if fails:
        res['status'] = 'failed'
    elif unknown:
        res['status'] = 'tool-error'
        res['detail'] = '%d obligations UNKNOWN without a failure' % unknown
    elif canary != 'FAILURE':
        res['status'] = 'vacuous'
        res['detail'] = 'canary did not fire (status %s): preconditions unsatisfiable or harness end unreachable' % canary
    elif n < u.get('min_obligations', 1):
        res['status'] = 'vacuous'
        res['detail'] = 'only %d obligations generated, floor is %d' % (n, u.get('min_obligations', 1))
    elif byc.get('loop_invariant_step', 0) < u.get('min_loops', 0):
        res['status'] = 'vacuous'
        res['detail'] = 'loop contracts present in the spec but only %d loop_invariant_step obligations generated (need %d)' % (byc.get('loop_invariant_step', 0), u.get('min_loops', 1))
    else:
        res['status'] = 'ok'
    # thorough tier: every proof unit that passed on the built-in SAT solver is re-run on a second back end (cadical);
    # a disagreement is a tool failure (exit 2), never a verdict
    if res['status'] == 'ok' and tier == 'thorough' and not trace and u.get('kind', 'proof') == 'proof' and backend == 'sat' and u.get('second_backend', True):
        cb3 = [c for c in cb] + ['--sat-solver', 'cadical']
        outj3 = os.path.join(bdir, 'cbmc.second.json')
        with open(outj3, 'wb') as fo:
            rc3, err3, dt3 = run(cb3, timeout, out=fo)
        res['second_backend'] = {'solver': 'cadical', 'time_s': round(dt3, 2)}
        if rc3 == -9:
            res['second_backend']['result'] = 'timeout (not counted)'
        else:
            try:
                results3, _ = parse_cbmc_json(outj3)
                bad3 = sorted(r['property'] for r in (results3 or []) if r['status'] == 'FAILURE' and not r.get('description', '').startswith('CANARY')
                              and not any(r.get('description', '').startswith(x) for x in IGNORED_DESCRIPTIONS))
                res['second_backend']['result'] = 'agrees' if not bad3 else 'DISAGREES: ' + ', '.join(bad3[:5])
                if bad3:
                    res['status'] = 'tool-error'
                    res['detail'] = 'back ends disagree: cadical reports ' + ', '.join(bad3[:5])
            except ToolError as e:
                res['second_backend']['result'] = 'unparsable (not counted): %s' % e
    return res


# --------------------------------------------------------------------------------------
# known findings

def load_known():
    finds, fixed = [], []
    if os.path.exists(KNOWN):
        for ln in open(KNOWN):
            ln = ln.strip()
            if ln.startswith('finding:'):
                kv = dict(re.findall(r'(\w+)=("[^"]*"|\S+)', ln[len('finding:'):]))
                kv = {k: v.strip('"') for k, v in kv.items()}
                finds.append(kv)
            elif ln.startswith('fixed:'):
                fixed.append(ln)
    return finds, fixed


def is_known(finds, pid, unit, f):
    for k in finds:
        if k.get('property') != pid or k.get('unit') != unit:
            continue
        if re.fullmatch(k.get('obligation', '.*'), f['obligation']) and (not k.get('desc') or k['desc'] in f['description']):
            return k
    return None


# --------------------------------------------------------------------------------------
# replay

_ASANLIB = {}


def asan_lib():
    """Build (once per driver run) a sanitized static library of /repo's current sources for replay programs."""
    if 'lib' in _ASANLIB:
        return _ASANLIB['lib']
    os.makedirs(BUILD, exist_ok=True)
    d = os.path.join(BUILD, 'asanlib')
    shutil.rmtree(d, ignore_errors=True)
    os.makedirs(d)
    srcs = [f for f in sorted(glob.glob(os.path.join(REPO, 'src', '*.cpp'))) if os.path.basename(f) not in ('call_machine.cpp', 'json.cpp', 'gr_logging.cpp')]
    flags = ['-std=c++11', '-g', '-O0', '-fsanitize=address,undefined', '-fno-sanitize=vptr', '-fno-sanitize-recover=undefined', '-DGRAPHITE2_NTRACING', '-DGRAPHITE2_STATIC',
             '-I', os.path.join(REPO, 'src'), '-I', os.path.join(REPO, 'include')]

    def cc(f):
        o = os.path.join(d, os.path.basename(f)[:-4] + '.o')
        return run(['g++'] + flags + ['-c', f, '-o', o], 600) + (o,)
    with cf.ThreadPoolExecutor(max_workers=CORES) as ex:
        rs = list(ex.map(cc, srcs))
    bad = [r for r in rs if r[0] != 0]
    if bad:
        _ASANLIB['lib'] = (None, flags, 'library build failed: ' + bad[0][1][-1500:])
        return _ASANLIB['lib']
    lib = os.path.join(d, 'libgr_asan.a')
    run(['ar', 'rcs', lib] + [r[3] for r in rs], 120)
    _ASANLIB['lib'] = (lib, flags, '')
    return _ASANLIB['lib']


def native_replay(u, witness, obligation, outdir):
    """Build replay/<u.replay>.cpp against the real sources and run it on the witness.
    returns (confirmed: bool|None, log)"""
    rp = u.get('replay')
    if not rp:
        return None, 'no native replay harness registered for this unit'
    src = os.path.join(HERE, 'replay', rp + '.cpp')
    if not os.path.exists(src):
        return None, 'replay source missing: ' + src
    lib, flags, err = asan_lib()
    if not lib:
        return None, err
    os.makedirs(BUILD, exist_ok=True)
    tmp = tempfile.mkdtemp(prefix='replay_', dir=BUILD)
    exe = os.path.join(tmp, rp)
    cmd = ['g++'] + flags + ['-I', os.path.join(HERE, 'replay'), src, lib, '-o', exe]
    rc, out, _ = run(cmd, 600)
    if rc != 0:
        shutil.rmtree(tmp, ignore_errors=True)
        return None, 'replay build failed:\n' + out[-2000:]
    wf = os.path.join(tmp, 'witness.txt')
    with open(wf, 'w') as fo:
        fo.write('unit=%s\n' % u['name'])
        fo.write('obligation=%s\n' % obligation)
        for k, v in sorted(witness.items()):
            fo.write('%s=%s\n' % (k, v))
    env = dict(os.environ, ASAN_OPTIONS='detect_leaks=0:abort_on_error=0', UBSAN_OPTIONS='print_stacktrace=1')
    try:
        p = subprocess.run([exe, wf], stdout=subprocess.PIPE, stderr=subprocess.STDOUT, timeout=120, env=env, cwd=REPO)
        log = p.stdout.decode('utf-8', 'replace')
        rc = p.returncode
    except subprocess.TimeoutExpired:
        log, rc = 'replay timeout', 0
    shutil.rmtree(tmp, ignore_errors=True)
    return (rc != 0), ('$ %s witness.txt -> exit %d\n' % (rp, rc)) + log[-4000:]


_WITRUN = {}


def witness_run(u, tier):
    if u['name'] not in _WITRUN:
        _WITRUN[u['name']] = build_unit(u, tier, extra_defs=u.get('witness_defines', ['WITNESS']), tag='.wit', trace=True)
    return _WITRUN[u['name']]


def handle_failure(pid, u, f, tier):
    """Produce a replay file for failing obligation f of unit u.  Returns (path, confirmed)."""
    os.makedirs(os.path.join(REPLAY_OUT, pid), exist_ok=True)
    path = os.path.join(REPLAY_OUT, pid, '%s.%s.json' % (u['name'], re.sub(r'[^\w.]', '_', f['obligation'])))
    rec = {'property': pid, 'unit': u['name'], 'obligation': f['obligation'], 'description': f['description'],
           'source_line_in_extracted_unit': f.get('line'), 'function': f.get('function'), 'template': os.path.relpath(u['_template'], HERE),
           'witness': None, 'replay': None, 'confirmed_on_real_code': False}
    confirmed = False
    wit = None
    if u.get('witness_defines') is not None or u.get('replay'):
        # re-run with the small witness harness and traces
        r2 = witness_run(u, tier)
        rec['witness_run'] = {'status': r2['status'], 'failures': [{k: v for k, v in x.items()} for x in r2['failures']][:8]}
        cands = [x for x in r2['failures'] if x['obligation'] == f['obligation']] or \
                [x for x in r2['failures'] if x['description'] == f['description']] or r2['failures']
        # try each candidate witness on the real code
        logs = []
        for c in cands[:6]:
            if not c.get('witness'):
                continue
            wit_in = dict(c['witness']); wit_in['description'] = c.get('description', '')
            ok, log = native_replay(u, wit_in, c['obligation'], None)
            logs.append({'obligation': c['obligation'], 'witness': c['witness'], 'confirmed': ok, 'log': log})
            if ok:
                confirmed = True
                wit = c['witness']
                break
        rec['replay'] = logs
    rec['witness'] = wit
    rec['confirmed_on_real_code'] = confirmed
    if not confirmed:
        rec['note'] = 'no-failing-input-found: the verifier reports this obligation as not discharged; no concrete input was replayed against the real code'
    # verifier output for this obligation
    try:
        outj = os.path.join(BUILD, u['name'], 'cbmc.json')
        results, msgs = parse_cbmc_json(outj)
        rec['verifier_output'] = [r for r in results if r['property'] == f['obligation']][:1]
        for r in rec['verifier_output']:
            r.pop('trace', None)
    except Exception:
        pass
    json.dump(rec, open(path, 'w'), indent=1)
    return path, confirmed


# --------------------------------------------------------------------------------------

def main():
    global BUILD
    ap = argparse.ArgumentParser()
    ap.add_argument('pid')
    ap.add_argument('--tier', default=os.environ.get('VERIF_TIER', 'quick'))
    ap.add_argument('--unit', action='append')
    ap.add_argument('--list', action='store_true')
    ap.add_argument('--replay')
    ap.add_argument('--no-evidence', action='store_true')
    ap.add_argument('--keep', action='store_true', help='keep the per-run build directory')
    a = ap.parse_args()
    tier = a.tier if a.tier in ('quick', 'thorough') else 'quick'
    pid = a.pid
    seed = int(os.environ.get('VERIF_SEED', '0') or 0)
    units = units_for(pid)
    if a.unit:
        units = [u for u in units if u['name'] in a.unit]
    units = [u for u in units if tier in u.get('tiers', ['quick', 'thorough'])]
    if a.list:
        for u in units:
            print(u['name'], u.get('kind', 'proof'), u.get('enforce'), os.path.basename(u['_template']))
        return 0
    BUILD = os.path.join(BUILD_ROOT, 'run_%s_%d' % (pid, os.getpid()))
    shutil.rmtree(BUILD, ignore_errors=True)
    os.makedirs(BUILD, exist_ok=True)
    os.makedirs(EVID, exist_ok=True)
    import atexit
    if not a.keep:
        atexit.register(lambda: shutil.rmtree(BUILD, ignore_errors=True))
    if a.replay:
        rec = json.load(open(a.replay))
        u = next((x for x in units_for(rec['property']) if x['name'] == rec['unit']), None)
        if not u:
            print('unknown unit', rec['unit'])
            return 2
        if not rec.get('witness'):
            print('replay file carries no concrete witness (no-failing-input-found); obligation: %s' % rec['obligation'])
            print(json.dumps(rec.get('verifier_output'), indent=1)[:3000])
            return 1
        ok, log = native_replay(u, rec['witness'], rec['obligation'], None)
        print(log)
        return 1 if ok else 0
    if not units:
        print('no units registered for', pid)
        return 2
    t0 = time.time()
    results = []
    # longest first
    units.sort(key=lambda u: -u.get('cost', 10))
    with cf.ThreadPoolExecutor(max_workers=max(1, CORES - 2)) as ex:
        futs = {ex.submit(build_unit, u, tier): u for u in units}
        for fu in cf.as_completed(futs):
            u = futs[fu]
            try:
                r = fu.result()
            except Exception as e:  # tool failure
                r = {'unit': u['name'], 'status': 'tool-error', 'detail': repr(e), 'obligations': 0, 'discharged': 0, 'failures': [], 'kind': u.get('kind', 'proof'), 'extracts': [], 'time_s': 0}
            results.append((u, r))
            print('  [%s] %-34s %-9s obligations=%d discharged=%d %.1fs %s' % (pid, r['unit'], r['status'], r['obligations'], r['discharged'], r.get('time_s', 0), (r.get('detail') or '')[:300].replace('\n', ' | ')), flush=True)
    results.sort(key=lambda t: t[0]['name'])
    finds, fixed = load_known()
    violations = []
    known_hits = []
    undecided = []
    for u, r in results:
        if r['status'] == 'failed':
            for f in r['failures']:
                k = is_known(finds, pid, u['name'], f)
                if k:
                    known_hits.append((u, f, k))
                else:
                    violations.append((u, f))
        elif r['status'] != 'ok':
            undecided.append((u, r))
    for u, f, k in known_hits:
        print('KNOWN-FINDING: property=%s unit=%s obligation=%s %s' % (pid, u['name'], f['obligation'], k.get('what', f['description'])))
    # a listed finding that no longer fails is only noted
    vio_records = []
    seen_units = set()
    def _rank(t):
        o = t[1]['obligation']
        return (0 if re.search(r'postcondition|assertion|precondition', o) else 1 if re.search(r'loop_invariant|decreases|assigns', o) else 2, t[0]['name'], o)
    violations.sort(key=_rank)
    for u, f in violations:
        # one replay per unit+description is enough
        key = (u['name'], f['description'])
        if key in seen_units:
            continue
        seen_units.add(key)
        path, confirmed = handle_failure(pid, u, f, tier)
        vio_records.append({'unit': u['name'], 'obligation': f['obligation'], 'description': f['description'], 'replay': path, 'confirmed': confirmed})
        if len(vio_records) <= MAX_VIOLATION_LINES:
            print('VIOLATION property=%s replay=%s unit=%s obligation=%s (%s)%s' % (pid, path, u['name'], f['obligation'], f['description'][:120], '' if confirmed else ' no-failing-input-found'))
    if len(vio_records) > MAX_VIOLATION_LINES:
        print('... and %d more violated obligations (all listed in the evidence file and under %s)' % (len(vio_records) - MAX_VIOLATION_LINES, os.path.join(REPLAY_OUT, pid)))
    wall = time.time() - t0
    # ---------------- evidence
    proof_units = [(u, r) for u, r in results if r.get('kind', 'proof') == 'proof']
    bounded_units = [(u, r) for u, r in results if r.get('kind', 'proof') != 'proof']
    # known-finding obligations are reported separately and not counted as obligations of the claim
    known_obl = {(u['name'], f['obligation']) for u, f, k in known_hits}
    def counts(lst):
        # obligations matched by a committed known finding are reported under known_findings_reported and are not part
        # of the claim: they are neither counted as obligations nor as discharged
        names = {u['name'] for u, _ in lst}
        nk = sum(1 for (un, _) in known_obl if un in names)
        o = sum(r['obligations'] for _, r in lst) - nk
        d = sum(r['discharged'] for _, r in lst)
        return o, d
    po, pd = counts(proof_units)
    bo, bd = counts(bounded_units)
    functions = sorted({'%s :: %s' % (i['file'], i['what']) for _, r in results for i in r.get('extracts', [])})
    manifest_level = 'proof'
    try:
        man = json.load(open(os.path.join(HERE, 'MANIFEST.json')))
        for c in man.get('checks', []):
            if c['property_id'] == pid:
                manifest_level = c['level_claimed']['category']
    except Exception:
        pass
    assumptions = list(COMMON_ASSUMPTIONS)
    for u, r in results:
        for x in u.get('assumptions', []):
            assumptions.append('%s: %s' % (u['name'], x))
        for g in u.get('replace', []):
            assumptions.append('%s: call to %s replaced by its contract (proved in its own unit if listed under units, else assumed)' % (u['name'], g))
    ev = {
        'property_id': pid, 'tier': tier, 'seed': seed, 'level': manifest_level,
        'coverage': {
            'obligations': po if manifest_level == 'proof' else po + bo,
            'discharged': pd if manifest_level == 'proof' else pd + bd,
            'checker_cmd': 'bin/check %s --tier %s  (per unit: goto-cc --function H x.c; goto-instrument --dfcc H --enforce-contract F [--replace-call-with-contract G] --apply-loop-contracts; cbmc --json-ui %s)' % (pid, tier, ' '.join(DEFAULT_CHECKS)),
            'trusted_base': TRUSTED_BASE,
            'verifier': cbmc_version(),
            'functions_under_contract': functions,
            'units': [{
                'unit': r['unit'], 'kind': r.get('kind'), 'status': r['status'], 'enforced_contract': r.get('enforce'), 'calls_replaced_by_contract': r.get('replace'),
                'obligations': r['obligations'], 'discharged': r['discharged'], 'by_class': r.get('by_class'), 'backend': r.get('backend'),
                'solver_time_s': r.get('solver_time_s'), 'canary': r.get('canary'), 'bound': (u.get('bound') if r.get('kind') != 'proof' else None),
                'unwind': tier_val(u, 'unwind', tier), 'claims': u.get('claims'),
                'extracted': [{'file': i['file'], 'line': i['line'], 'what': i['what'], 'sha256': i['sha256'], 'rewrite_rules_fired': i['rules']} for i in r.get('extracts', [])],
                'second_backend': r.get('second_backend'), 'harness_assumes': r.get('assumes'), 'flat_address_space_uses': r.get('flat_address_space_uses', 0), 'checker_cmd': r.get('checker_cmd'), 'detail': r.get('detail'),
            } for u, r in results],
            'proof_units': {'count': len(proof_units), 'obligations': po, 'discharged': pd},
            'bounded_units': {'count': len(bounded_units), 'obligations': bo, 'discharged': bd, 'note': 'bounded stand-ins (cbmc --unwind N --unwinding-assertions or finite universe); never counted as proved'},
            'known_findings_reported': [{'unit': u['name'], 'obligation': f['obligation'], 'what': k.get('what')} for u, f, k in known_hits],
            'violations': vio_records,
            'undecided_units': [{'unit': r['unit'], 'status': r['status'], 'detail': (r.get('detail') or '')[:500]} for _, r in undecided],
            'samples': [s for _, r in results for s in r.get('samples', [])][:12] or [{'note': 'no samples'}],
            'extraction_drops': EXTRACTION_DROPS,
            'explanation': 'Contract-based deductive verification with CBMC code contracts (goto-instrument --dfcc) of function bodies extracted mechanically from /repo on this run. proof units: loop-free or every loop closed by a loop contract, inputs symbolic; bounded units are listed separately.',
            'evaluations': po + bo, 'distinct_nontrivial': pd + bd,
            'rule': 'one evaluation = one verifier obligation (assertion generated by CBMC from a contract clause, loop contract, frame condition or a built-in safety check) on code extracted from /repo; distinct by obligation name; all are non-trivial in the sense that the canary of the unit is reachable',
        },
        'assumptions': assumptions,
        'wall_s': round(wall, 2),
        'violations': len(vio_records),
    }
    if not a.no_evidence and not a.unit:
        json.dump(ev, open(os.path.join(EVID, pid + '.json'), 'w'), indent=1)
    print('[%s] tier=%s units=%d proof-obligations=%d/%d bounded-obligations=%d/%d known-findings=%d violations=%d undecided=%d wall=%.1fs' %
          (pid, tier, len(results), pd, po, bd, bo, len(known_hits), len(vio_records), len(undecided), wall))
    if vio_records:
        return 1
    if undecided:
        for u, r in undecided:
            print('UNDECIDED unit=%s status=%s %s' % (r['unit'], r['status'], (r.get('detail') or '')[:800]))
        return 2
    return 0


COMMON_ASSUMPTIONS = [
    'CBMC 6.11.0 symbolic execution, dfcc contract instrumentation and its SAT/SMT back ends are sound',
    'extraction rewrite rules R1-R10 (lib/xtract.py, listed per function under rewrite_rules_fired) preserve semantics; they are declared, counted and must-fire, but not proved',
    'machine model: LP64, 8-bit char (signed), two\'s complement, IEEE-754 single precision (x86-64 gcc)',
    'pointer arithmetic that leaves an object without dereferencing is not flagged (--pointer-overflow-check off): flat address space',
    'C library models of CBMC for malloc/free/memcpy/memmove/memset/strlen',
    'harness buffer sizes are bounded by MAXN (stated per unit); loop contracts themselves are inductive and unbounded',
]
TRUSTED_BASE = [
    'cbmc/goto-cc/goto-instrument 6.11.0', 'gcc preprocessor', 'lib/xtract.py rewrite rules', 'shim/*.h type and accessor definitions',
    'hand-written spec functions in spec/*.h (the oracle)',
]
EXTRACTION_DROPS = ('C++ access control, const-ness of methods, overload resolution (extracted names are unique per unit), exception specifications, '
                    'inline/attributes, namespaces, implicit this (rewritten to explicit self), references (rewritten to pointers), '
                    'C++ casts (rewritten to C casts); templates are instantiated textually')

if __name__ == '__main__':
    sys.exit(main())
