#!/usr/bin/env python3
"""xtract - mechanical extraction of function bodies from /repo into C translation units.

The verified text is the text of /repo's working tree, re-read on every run.  A spec
template (spec/*.c) contains directives

    /*@extract { python-dict }@*/

Each directive is replaced by the C text produced from the real source by the recipe
in the dict.  Only the rewrites named in the recipe are applied (closed list, see
RULES below); every rule reports how often it fired, rules flagged must-fire abort
the run (ExtractError -> exit 2, never a verdict) when they do not fire.

Recipe keys
  file    : path relative to the repository root
  kind    : 'function' (default) | 'startop' | 'range' | 'define'
  sig     : regex matching the function header up to (not including) the opening '{'
            (kind=function), must match exactly once inside `scope`
  scope   : optional regex; the search is restricted to the brace block that follows the
            first match of this regex (e.g. r'struct _utf_codec<8>')
  name    : (startop) opcode name; (define) macro name
  start/end : (range) regexes delimiting a statement range; `end` is exclusive
  emit    : C text that replaces the header (the C signature, plus nothing else).  The
            contract is written on a prototype elsewhere in the template.
            For kind=startop/range the text is emitted between `pre` and `post`.
  pre/post: optional text emitted before / after the extracted text (kind=range/startop)
  refs    : list of identifiers that are C++ references -> every token x becomes (*x)   [R1]
  casts   : True -> static_cast/reinterpret_cast/const_cast<T>(e) -> ((T)(e))            [R2]
  strip   : list of literal qualifier strings removed (e.g. 'graphite2::')              [R4]
  self    : list of member names -> self->name (token-wise, not after '.' or '->')       [R6]
  subs    : list of [regex, replacement, min_count] token rewrites (declared, counted)   [R3/R5/R7/R8]
  loops   : {ordinal: contract text} inserted after the header of the k-th loop          [R10]
  inserts : list of [regex, text, 'before'|'after'] ghost insertions                      [R10]
  body_only: True -> emit only the statements between the outer braces
"""
import ast, hashlib, os, re, sys


class ExtractError(Exception):
    pass


# --------------------------------------------------------------------------------------
# lexical helpers: positions of code (not comment / string / char literal) characters

def code_mask(text):
    """Return a bytearray m with m[i]=1 iff text[i] is ordinary code (outside comments,
    string and character literals)."""
    n = len(text)
    m = bytearray(n)
    i = 0
    while i < n:
        c = text[i]
        if c == '/' and i + 1 < n and text[i + 1] == '/':
            j = text.find('\n', i)
            i = n if j < 0 else j
        elif c == '/' and i + 1 < n and text[i + 1] == '*':
            j = text.find('*/', i + 2)
            i = n if j < 0 else j + 2
        elif c == '"' or c == "'":
            q = c
            j = i + 1
            while j < n and text[j] != q:
                if text[j] == '\\':
                    j += 1
                j += 1
            i = j + 1
        else:
            m[i] = 1
            i += 1
    return m


def match_close(text, mask, pos, open_ch, close_ch):
    """text[pos] == open_ch; return index of the matching close_ch."""
    assert text[pos] == open_ch, (text[pos:pos + 20], open_ch)
    depth = 0
    for i in range(pos, len(text)):
        if not mask[i]:
            continue
        if text[i] == open_ch:
            depth += 1
        elif text[i] == close_ch:
            depth -= 1
            if depth == 0:
                return i
    raise ExtractError('unbalanced %s%s from offset %d' % (open_ch, close_ch, pos))


def next_code_char(text, mask, pos):
    i = pos
    while i < len(text) and (not mask[i] or text[i].isspace()):
        i += 1
    return i


def strip_comments(text):
    mask = code_mask(text)
    out = []
    i = 0
    n = len(text)
    while i < n:
        c = text[i]
        if not mask[i] and c == '/' and i + 1 < n and text[i + 1] in '/*':
            if text[i + 1] == '/':
                j = text.find('\n', i)
                j = n if j < 0 else j
            else:
                j = text.find('*/', i + 2)
                j = n if j < 0 else j + 2
                out.append(' ')
            i = j
        elif not mask[i]:
            # string/char literal: copy verbatim up to its end
            q = c
            j = i + 1
            while j < n and text[j] != q:
                if text[j] == '\\':
                    j += 1
                j += 1
            out.append(text[i:j + 1])
            i = j + 1
        else:
            out.append(c)
            i += 1
    return ''.join(out)


# --------------------------------------------------------------------------------------
# locating source text

def _search_region(text, recipe):
    """Return (lo, hi) offsets of the region to search in."""
    scope = recipe.get('scope')
    if not scope:
        return 0, len(text)
    mask = code_mask(text)
    ms = [m for m in re.finditer(scope, text) if mask[m.start()]]
    if len(ms) != 1:
        raise ExtractError('scope %r matches %d times in %s' % (scope, len(ms), recipe['file']))
    b = text.find('{', ms[0].end() - 1 if text[ms[0].end() - 1] == '{' else ms[0].end())
    while b >= 0 and not mask[b]:
        b = text.find('{', b + 1)
    if b < 0:
        raise ExtractError('no block after scope %r' % scope)
    e = match_close(text, mask, b, '{', '}')
    return b, e + 1


def locate(text, recipe):
    """Return (header, body, lineno) for the recipe; body includes outer braces for
    kind=function."""
    kind = recipe.get('kind', 'function')
    mask = code_mask(text)
    lo, hi = _search_region(text, recipe)
    if kind == 'function':
        ms = [m for m in re.finditer(recipe['sig'], text[lo:hi]) if mask[lo + m.start()]]
        # keep only matches that are followed (after optional qualifiers / initialiser list) by '{'
        cands = []
        for m in ms:
            p = next_code_char(text, mask, lo + m.end())
            if p < len(text) and text[p] == '{':
                cands.append((lo + m.start(), p))
            elif p < len(text) and text[p] == ':' and recipe.get('ctor'):
                # constructor initialiser list: body starts at first '{' at paren depth 0
                q = p
                depth = 0
                while q < len(text):
                    if mask[q]:
                        if text[q] == '(':
                            depth += 1
                        elif text[q] == ')':
                            depth -= 1
                        elif text[q] == '{' and depth == 0:
                            break
                    q += 1
                cands.append((lo + m.start(), q, p))
        if len(cands) != 1:
            raise ExtractError('signature %r matches %d definitions in %s' % (recipe['sig'], len(cands), recipe['file']))
        s, b = cands[0][0], cands[0][1]
        e = match_close(text, mask, b, '{', '}')
        if len(cands[0]) == 3:
            # constructor: turn the member initialiser list into assignments at the start of the body (R12)
            colon = cands[0][2]
            init = strip_comments(text[colon + 1:b])
            items, depth, cur = [], 0, ''
            for ch in init:
                if ch == '(':
                    depth += 1
                elif ch == ')':
                    depth -= 1
                if ch == ',' and depth == 0:
                    items.append(cur)
                    cur = ''
                else:
                    cur += ch
            if cur.strip():
                items.append(cur)
            assigns = []
            for it in items:
                mm = re.match(r'\s*(\w+)\s*\((.*)\)\s*$', it, re.S)
                if not mm:
                    raise ExtractError('constructor initialiser not of the form member(expr): %r' % it)
                assigns.append('    %s = (%s);' % (mm.group(1), mm.group(2).strip() or '0'))
            return text[s:colon], '{\n' + '\n'.join(assigns) + '\n' + text[b + 1:e + 1], text.count('\n', 0, s) + 1
        return text[s:b], text[b:e + 1], text.count('\n', 0, s) + 1
    if kind == 'startop':
        pat = r'STARTOP\(\s*%s\s*\)' % re.escape(recipe['name'])
        ms = [m for m in re.finditer(pat, text[lo:hi]) if mask[lo + m.start()]]
        if len(ms) != 1:
            raise ExtractError('STARTOP(%s) matches %d times' % (recipe['name'], len(ms)))
        s = lo + ms[0].start()
        m2 = re.compile(r'\bENDOP\b').search(text, s)
        while m2 and not mask[m2.start()]:
            m2 = re.compile(r'\bENDOP\b').search(text, m2.end())
        if not m2:
            raise ExtractError('no ENDOP after STARTOP(%s)' % recipe['name'])
        return '', text[s:m2.end()], text.count('\n', 0, s) + 1
    if kind == 'range':
        ms = [m for m in re.finditer(recipe['start'], text[lo:hi]) if mask[lo + m.start()]]
        if len(ms) != 1:
            raise ExtractError('range start %r matches %d times in %s' % (recipe['start'], len(ms), recipe['file']))
        s = lo + ms[0].start()
        if recipe.get('start_after'):
            s = lo + ms[0].end()
        if recipe.get('end') == '@block':
            b = text.find('{', s)
            while b >= 0 and not mask[b]:
                b = text.find('{', b + 1)
            e = match_close(text, mask, b, '{', '}') + 1
        else:
            m2 = re.compile(recipe['end']).search(text, lo + ms[0].end())
            while m2 and not mask[m2.start()]:
                m2 = re.compile(recipe['end']).search(text, m2.end())
            if not m2 or m2.start() > hi:
                raise ExtractError('range end %r not found in %s' % (recipe['end'], recipe['file']))
            e = m2.end() if recipe.get('end_inclusive') else m2.start()
        return '', text[s:e], text.count('\n', 0, s) + 1
    if kind == 'define':
        pat = r'^[ \t]*#[ \t]*define[ \t]+%s\b' % re.escape(recipe['name'])
        ms = list(re.finditer(pat, text[lo:hi], re.M))
        if len(ms) != 1:
            raise ExtractError('#define %s matches %d times in %s' % (recipe['name'], len(ms), recipe['file']))
        s = lo + ms[0].start()
        e = s
        while True:
            nl = text.find('\n', e)
            if nl < 0:
                e = len(text)
                break
            if text[nl - 1] == '\\':
                e = nl + 1
                continue
            e = nl
            break
        return '', text[s:e], text.count('\n', 0, s) + 1
    raise ExtractError('unknown kind %r' % kind)


# --------------------------------------------------------------------------------------
# rewrites

def sub_code(text, pattern, repl, flags=0):
    """re.sub restricted to matches that start in code (not comments/strings)."""
    mask = code_mask(text)
    count = 0

    def f(m):
        nonlocal count
        if not mask[m.start()]:
            return m.group(0)
        count += 1
        return m.expand(repl) if isinstance(repl, str) else repl(m)
    return re.sub(pattern, f, text, flags=flags), count


def rewrite_casts(text):
    """static_cast<T>(e) etc. -> ((T)(e)).  T may contain nested <>."""
    total = 0
    while True:
        mask = code_mask(text)
        m = None
        for mm in re.finditer(r'\b(static_cast|reinterpret_cast|const_cast)\s*<', text):
            if mask[mm.start()]:
                m = mm
                break
        if not m:
            return text, total
        lt = m.end() - 1
        depth = 0
        i = lt
        while i < len(text):
            if text[i] == '<':
                depth += 1
            elif text[i] == '>':
                depth -= 1
                if depth == 0:
                    break
            i += 1
        T = text[lt + 1:i].strip()
        p = next_code_char(text, mask, i + 1)
        if text[p] != '(':
            raise ExtractError('cast without parenthesised operand near %r' % text[m.start():m.start() + 40])
        q = match_close(text, mask, p, '(', ')')
        text = text[:m.start()] + '((' + T + ')(' + text[p + 1:q] + '))' + text[q + 1:]
        total += 1


def rewrite_tokens(text, names, fmt):
    """Replace identifier tokens in `names` by fmt % name, only in code and only when
    not preceded by '.', '->' or '::' (i.e. not a member selection of something else)."""
    if not names:
        return text, 0
    mask = code_mask(text)
    pat = re.compile(r'(?<![\w.])(?<!->)(?<!::)(?:' + '|'.join(re.escape(n) for n in sorted(names, key=len, reverse=True)) + r')\b')
    out = []
    last = 0
    cnt = 0
    for m in pat.finditer(text):
        if not mask[m.start()]:
            continue
        # '->' check: lookbehind excluded '>' generally; allow comparison '> x' with space only
        out.append(text[last:m.start()])
        out.append(fmt % m.group(0))
        last = m.end()
        cnt += 1
    out.append(text[last:])
    return ''.join(out), cnt


def find_loops(text):
    """Yield (kind, insert_pos) in source order for every for/while/do loop in text.
    insert_pos is where a loop contract goes: after the closing paren of for(...)/while(...)
    headers, after the `do` keyword for do-while loops."""
    mask = code_mask(text)
    res = []
    do_whiles = set()
    for m in re.finditer(r'\b(for|while|do)\b', text):
        if not mask[m.start()]:
            continue
        kw = m.group(1)
        if kw == 'do':
            res.append(('do', m.end(), m.start()))
            # find the matching trailing while to exclude it
            p = next_code_char(text, mask, m.end())
            if text[p] == '{':
                e = match_close(text, mask, p, '{', '}')
            else:
                e = text.find(';', p)
            w = next_code_char(text, mask, e + 1)
            if text.startswith('while', w):
                do_whiles.add(w)
            continue
        if kw == 'while' and m.start() in do_whiles:
            continue
        p = next_code_char(text, mask, m.end())
        if p >= len(text) or text[p] != '(':
            continue
        q = match_close(text, mask, p, '(', ')')
        res.append((kw, q + 1, m.start()))
    res.sort(key=lambda t: t[2])
    return [(k, p) for k, p, _ in res]


def apply_recipe(body, recipe, fired):
    """Apply the declared rewrites to `body`; record fire counts in `fired`."""
    def note(rule, n, must):
        fired.append({'rule': rule, 'count': n})
        if must and n < (must if isinstance(must, int) and not isinstance(must, bool) else 1):
            raise ExtractError('must-fire rule %s fired %d times (need %s) in %s' % (rule, n, must, recipe.get('sig') or recipe.get('name') or recipe.get('start')))

    if recipe.get('strip_comments', True):
        body = strip_comments(body)
    # R13: declared cuts - a region of the body that is outside the verifier's reach is dropped and replaced by the
    # given text (a ghost model of its effect on the locals that survive); reported with the number of characters cut
    for cut in recipe.get('cuts') or []:
        mask = code_mask(body)
        ms = [m for m in re.finditer(cut[0], body) if mask[m.start()]]
        if len(ms) != 1:
            raise ExtractError('cut start %r matches %d times' % (cut[0], len(ms)))
        m2 = re.compile(cut[1]).search(body, ms[0].end())
        while m2 and not mask[m2.start()]:
            m2 = re.compile(cut[1]).search(body, m2.end())
        if not m2:
            raise ExtractError('cut end %r not found' % cut[1])
        dropped = body[ms[0].start():m2.start()]
        body = body[:ms[0].start()] + (cut[2] if len(cut) > 2 else '') + '\n' + body[m2.start():]
        fired.append({'rule': 'R13-cut:' + cut[0], 'count': 1, 'dropped_chars': len(dropped), 'dropped_sha256': hashlib.sha256(dropped.encode()).hexdigest()[:16]})
    # R11: brace the single-statement body of the listed loops (semantics preserving; needed so that ghost
    # statements can be inserted into the body)
    for k in sorted(recipe.get('brace_loops') or [], reverse=True):
        lp = find_loops(body)
        if k > len(lp):
            raise ExtractError('brace_loops: loop #%d not found' % k)
        kind_, pos = lp[k - 1]
        mask = code_mask(body)
        b = next_code_char(body, mask, pos)
        if body[b] == '{':
            note('R11-brace-loop-%d' % k, 0, False)
            continue
        depth = 0
        e = b
        while e < len(body):
            if mask[e]:
                if body[e] in '([{':
                    depth += 1
                elif body[e] in ')]}':
                    depth -= 1
                elif body[e] == ';' and depth == 0:
                    break
            e += 1
        nxt = next_code_char(body, mask, e + 1)
        if body.startswith('else', nxt):
            raise ExtractError('brace_loops: body of loop #%d continues with else; not handled' % k)
        body = body[:b] + '{ ' + body[b:e + 1] + ' }' + body[e + 1:]
        note('R11-brace-loop-%d' % k, 1, True)
    for ins in recipe.get('inserts') or []:
        pat, txt, where = ins[0], ins[1], (ins[2] if len(ins) > 2 else 'before')
        if isinstance(pat, int):
            # ghost statement at the start of the (braced) body of loop #pat
            lp = find_loops(body)
            if pat > len(lp):
                raise ExtractError('insert: loop #%d not found' % pat)
            mask = code_mask(body)
            b = next_code_char(body, mask, lp[pat - 1][1])
            if body[b] != '{':
                raise ExtractError('insert: body of loop #%d is not braced (use brace_loops)' % pat)
            if where == 'body_end':
                e = match_close(body, mask, b, '{', '}')
                body = body[:e] + '\n' + txt + '\n' + body[e:]
            else:
                body = body[:b + 1] + '\n' + txt + '\n' + body[b + 1:]
            note('R10-insert:loop-%d-%s' % (pat, where if where == 'body_end' else 'body-start'), 1, True)
            continue
        mask = code_mask(body)
        ms = [m for m in re.finditer(pat, body) if mask[m.start()]]
        if len(ms) != 1:
            raise ExtractError('insert anchor %r matches %d times' % (pat, len(ms)))
        pos = ms[0].start() if where == 'before' else ms[0].end()
        body = body[:pos] + '\n' + txt + '\n' + body[pos:]
        note('R10-insert:' + pat, 1, True)
    # R10, positions refer to the text after R11
    loops = recipe.get('loops') or {}
    if loops:
        lp = find_loops(body)
        want = {int(k): v for k, v in loops.items()}
        if max(want) > len(lp):
            raise ExtractError('loop #%d requested but only %d loops found in %s' % (max(want), len(lp), recipe.get('sig') or recipe.get('name')))
        for k in sorted(want, reverse=True):
            pos = lp[k - 1][1]
            body = body[:pos] + '\n' + want[k] + '\n' + body[pos:]
        note('R10-loop-contracts', len(want), True)
    if recipe.get('casts'):
        body, n = rewrite_casts(body)
        note('R2-casts', n, False)
    for q in recipe.get('strip') or []:
        body, n = sub_code(body, re.escape(q), '')
        note('R4-strip:' + q, n, False)
    for s in recipe.get('subs') or []:
        pat, rep = s[0], s[1]
        must = s[2] if len(s) > 2 else 1
        body, n = sub_code(body, pat, rep)
        note('sub:' + pat, n, must)
    if recipe.get('methods'):
        body, n = rewrite_methods(body, recipe['methods'])
        note('R7-methods', n, False)
    if recipe.get('refs'):
        body, n = rewrite_tokens(body, recipe['refs'], '(*%s)')
        note('R1-refs:' + ','.join(recipe['refs']), n, True)
    if recipe.get('self'):
        body, n = rewrite_tokens(body, recipe['self'], 'self->%s')
        note('R6-self', n, False)
    return body



# --------------------------------------------------------------------------------------
# R7: method-call syntax  RECV->name(args) / RECV.name(args)  ->  M_name_<arity>(RECV | &(RECV), args)

def _receiver_start(text, mask, op_pos):
    """text[op_pos:] starts with '->' or '.'; return the start offset of the postfix expression that is the receiver."""
    pos = op_pos
    while True:
        i = pos - 1
        while i >= 0 and text[i].isspace():
            i -= 1
        if i < 0:
            return pos
        if text[i] == ')':
            depth = 0
            j = i
            while j >= 0:
                if mask[j]:
                    if text[j] == ')':
                        depth += 1
                    elif text[j] == '(':
                        depth -= 1
                        if depth == 0:
                            break
                j -= 1
            if j < 0:
                raise ExtractError('unbalanced receiver near offset %d' % op_pos)
            k = j - 1
            while k >= 0 and text[k].isspace():
                k -= 1
            if k >= 0 and (text[k].isalnum() or text[k] == '_'):
                while k >= 0 and (text[k].isalnum() or text[k] == '_'):
                    k -= 1
                start = k + 1
                word = text[start:j].strip()
                if word in ('if', 'while', 'for', 'switch', 'return', 'sizeof'):
                    start = j
            else:
                start = j
        elif text[i] == ']':
            depth = 0
            j = i
            while j >= 0:
                if mask[j]:
                    if text[j] == ']':
                        depth += 1
                    elif text[j] == '[':
                        depth -= 1
                        if depth == 0:
                            break
                j -= 1
            # the indexed expression continues to the left
            pos = j
            continue
        elif text[i].isalnum() or text[i] == '_':
            k = i
            while k >= 0 and (text[k].isalnum() or text[k] == '_'):
                k -= 1
            start = k + 1
        else:
            return pos
        # is the piece preceded by another selection operator?
        m = start - 1
        while m >= 0 and text[m].isspace():
            m -= 1
        if m >= 1 and text[m - 1:m + 1] == '->':
            pos = m - 1
            continue
        if m >= 1 and text[m - 1:m + 1] == '::':
            pos = m - 1
            continue
        if m >= 0 and text[m] == '.' and not (m >= 1 and text[m - 1].isdigit()):
            pos = m
            continue
        return start


def rewrite_methods(text, names, prefix='M_'):
    if not names:
        return text, 0
    pat = re.compile(r'(->|\.)\s*(' + '|'.join(re.escape(n) for n in sorted(names, key=len, reverse=True)) + r')\s*\(')
    count = 0
    guard = 0
    while True:
        guard += 1
        if guard > 5000:
            raise ExtractError('method rewriting does not terminate')
        mask = code_mask(text)
        m = None
        for mm in pat.finditer(text):
            if mask[mm.start()]:
                m = mm
                break
        if not m:
            return text, count
        op = m.group(1)
        rs = _receiver_start(text, mask, m.start())
        recv = text[rs:m.start()].strip()
        if not recv:
            raise ExtractError('method call without receiver near %r' % text[m.start():m.start() + 30])
        lp = m.end() - 1
        rp = match_close(text, mask, lp, '(', ')')
        args = text[lp + 1:rp].strip()
        depth = 0
        arity = 0 if not args else 1
        for idx, ch in enumerate(args):
            if ch in '([{':
                depth += 1
            elif ch in ')]}':
                depth -= 1
            elif ch == ',' and depth == 0:
                arity += 1
        r = recv if op == '->' else '&(' + recv + ')'
        new = '%s%s_%d(%s%s)' % (prefix, m.group(2), arity, r, (', ' + args) if args else '')
        text = text[:rs] + new + text[rp + 1:]
        count += 1


def accessors(repo, recipe):
    """kind=accessors: extract the inline one-liner methods `names` of class `cls` from a header as C functions
    PREFIX_name_<arity>(THIS *self, params).  Member names in `fields` become self->name; calls to sibling methods
    listed in `names` without receiver become PREFIX_name_<n>(self, ..)."""
    path = os.path.join(repo, recipe['file'])
    text = open(path, encoding='utf-8', errors='replace').read()
    mask = code_mask(text)
    lo, hi = _search_region(text, {'scope': recipe['scope'], 'file': recipe['file']})
    region = text[lo:hi]
    rmask = code_mask(region)
    prefix = recipe['prefix']
    this = recipe.get('this', prefix)
    out = []
    fired = []
    protos = []
    seen_names = set()
    defines = []
    for name in recipe['names']:
        pat = re.compile(r'(?:^|[;{}:])\s*((?:[\w:<>]+[\s\*&]+)+?)' + re.escape(name) + r'\s*\(([^()]*)\)\s*(const)?\s*(?:throw\s*\(\s*\))?\s*\{', re.M)
        found = 0
        for m in pat.finditer(region):
            if not rmask[m.start(2) if m.group(2) else m.end() - 1]:
                continue
            b = m.end() - 1
            e = match_close(region, rmask, b, '{', '}')
            body = strip_comments(region[b:e + 1])
            ret = ' '.join(m.group(1).replace('inline', '').replace('static', '').replace('virtual', '').split())
            params = [x.strip() for x in m.group(2).split(',')] if m.group(2).strip() else []
            params = [re.sub(r'\s*=\s*[^,]+$', '', x) for x in params]
            arity = len(params)
            cname = '%s_%s_%d' % (prefix, name, arity)
            if cname in seen_names:          # const / non-const overload pair: one C function
                continue
            seen_names.add(cname)
            # receiver-less calls to sibling accessors
            for other in recipe['names']:
                def sib(mm2, other=other):
                    a = mm2.group(1).strip()
                    n = 0 if not a else a.count(',') + 1
                    return '%s_%s_%d(self%s)' % (prefix, other, n, (', ' + a) if a else '')
                body, _ = sub_code(body, r'(?<![\w.>:])' + re.escape(other) + r'\s*\(([^()]*)\)', sib)
            body, _ = rewrite_tokens(body, recipe.get('fields', []), 'self->%s')
            for sb in recipe.get('subs') or []:
                body, _ = sub_code(body, sb[0], sb[1])
            selfdecl = ('const %s *self' % this) if m.group(3) else ('%s *self' % this)
            sig = 'static %s %s(%s%s)' % (ret, cname, selfdecl, (', ' + ', '.join(params)) if params else '')
            protos.append(sig + ';')
            out.append(sig + ' ' + body)
            if recipe.get('dispatch', True) and name not in (recipe.get('generic') or []):
                defines.append('#define M_%s_%d %s' % (name, arity, cname))
            found += 1
        fired.append({'rule': 'accessor:' + name, 'count': found})
        if not found and not recipe.get('optional'):
            raise ExtractError('accessor %s::%s not found as an inline method in %s' % (prefix, name, recipe['file']))
    info = {'file': recipe['file'], 'line': text.count('\n', 0, lo) + 1, 'kind': 'accessors', 'what': '%s accessors: %s' % (prefix, ', '.join(recipe['names'])),
            'sha256': hashlib.sha256(region.encode()).hexdigest(), 'rules': fired, 'source_header': ''}
    return '\n'.join(protos) + '\n' + '\n'.join(out) + '\n' + '\n'.join(defines) + '\n', info


def members(repo, recipe):
    """kind=members: the data-member declarations `names` of a class, copied from the header (so that a shim struct has
    exactly the real members' types).  Emits the declaration statements that declare the requested names, in source order,
    with comments stripped; `subs` may adapt C++-only syntax (references)."""
    path = os.path.join(repo, recipe['file'])
    text = open(path, encoding='utf-8', errors='replace').read()
    lo, hi = _search_region(text, {'scope': recipe['scope'], 'file': recipe['file']})
    body = strip_comments(text[lo + 1:hi - 1])
    mask = code_mask(body)
    # split into top-level statements, skipping nested blocks (inline methods, nested types)
    stmts, depth, cur, i = [], 0, '', 0
    while i < len(body):
        ch = body[i]
        if mask[i] and ch == '{':
            depth += 1
        elif mask[i] and ch == '}':
            depth -= 1
            if depth == 0:
                cur = ''          # a method body or nested type ended: whatever preceded it is not a data member
                i += 1
                continue
        if depth == 0:
            if mask[i] and ch == ';':
                stmts.append(cur.strip())
                cur = ''
            else:
                cur += ch
        i += 1
    want = list(recipe['names'])
    found = {}
    out = []
    for st in stmts:
        st = re.sub(r'\b(public|private|protected)\s*:', ' ', st)
        st = re.sub(r'\bCLASS_NEW_DELETE\b', ' ', st).strip()
        if not st or '(' in st.split('=')[0] and not re.search(r'\[\s*\w*\s*\]', st):
            if '(' in st:
                continue
        if st.startswith(('typedef', 'friend', 'using', 'static', 'template')):
            continue
        if st.startswith(('enum', 'struct', 'class')) and len(st.split()) < 3:
            continue
        decl_names = re.findall(r'[\*&\s,]([A-Za-z_]\w*)\s*(?:\[[^\]]*\])?\s*(?:=[^,]*)?(?=,|$)', ' ' + st)
        hit = [n for n in decl_names if n in want]
        if hit:
            st2 = ' '.join(st.split())
            for sb in recipe.get('subs') or []:
                st2 = re.sub(sb[0], sb[1], st2)
            out.append('    ' + st2 + ';')
            for n in decl_names:
                found[n] = True
    missing = [n for n in want if n not in found]
    if missing:
        raise ExtractError('members not found in %s %s: %s' % (recipe['file'], recipe['scope'], ', '.join(missing)))
    info = {'file': recipe['file'], 'line': text.count('\n', 0, lo) + 1, 'kind': 'members', 'what': 'data members ' + ', '.join(want),
            'sha256': hashlib.sha256('\n'.join(out).encode()).hexdigest(), 'rules': [{'rule': 'members', 'count': len(out)}], 'source_header': ''}
    return '\n'.join(out) + '\n', info


def op_effects(repo, recipe):
    """kind=opeffects: a C table, indexed by on-disk opcode number, of the syntactic stack effect of each opcode body.
    For every STARTOP(name)..ENDOP block of `file`: pops = #pop() + #binop( + #sbinop(, pushes = #push( (those inside the
    EXIT macro are not in the body text), inplace = 1 if the body uses `*sp` directly.  required = pops + inplace,
    net = pushes - pops.  The index -> implementation name map is read from `table` (opcode_table.h: first do_/do2
    argument of each row; NILOP rows have no implementation for that code kind)."""
    text = strip_comments(open(os.path.join(repo, recipe['file']), encoding='utf-8', errors='replace').read())
    stats = {}
    for m in re.finditer(r'STARTOP\(\s*(\w+)\s*\)(.*?)\bENDOP\b', text, re.S):
        body = m.group(2)
        pops = len(re.findall(r'\bpop\(\)', body)) + len(re.findall(r'\bs?binop\(', body))
        pushes = len(re.findall(r'\bpush\(', body))
        inplace = 1 if re.search(r'\*sp\b', body) or re.search(r'\bs?binop\(', body) else 0
        stats[m.group(1)] = (pops + inplace, pushes + inplace - pops - inplace, pops, pushes, inplace)
    ttext = strip_comments(open(os.path.join(repo, recipe['table']), encoding='utf-8', errors='replace').read())
    rows = re.findall(r'\{\{\s*([^{}]*?)\s*\}\s*,\s*(\w+)\s*,\s*"(\w+)"\s*\}', ttext)
    if len(rows) < 60:
        raise ExtractError('opcode_table.h: only %d rows recognised' % len(rows))
    out = ['static const struct { int impl_action, impl_constraint; int required, net; } OP_EFFECT[] = {']
    names = ['#ifdef OP_EFFECT_NAMES', 'static const char *const OP_IMPL_NAME[] = {']
    for impls, psz, name in rows:
        parts = [x.strip() for x in impls.split(',')]
        if len(parts) == 1 and parts[0].startswith('do2('):
            a = c = parts[0][4:-1]
        else:
            a = parts[0][4:-1] if parts[0].startswith('do_(') else None
            c = parts[1][4:-1] if len(parts) > 1 and parts[1].startswith('do_(') else None
        impl = a or c
        if impl and impl not in stats:
            raise ExtractError('opcode_table.h names implementation %s which has no STARTOP block' % impl)
        req, net = (stats[impl][0], stats[impl][1]) if impl else (0, 0)
        out.append('  { %d, %d, %d, %d },   /* %s: %s */' % (1 if a else 0, 1 if c else 0, req, net, name, impl))
        names.append('  %s,' % ('"%s"' % impl if impl else '0'))
    out.append('};')
    names += ['};', '#endif']
    out += names
    info = {'file': recipe['file'], 'line': 1, 'kind': 'opeffects', 'what': 'syntactic stack effect of every STARTOP block joined with ' + recipe['table'],
            'sha256': hashlib.sha256((text + ttext).encode()).hexdigest(), 'rules': [{'rule': 'opeffects-count', 'count': len(rows)}], 'source_header': ''}
    return '\n'.join(out) + '\n', info


def extract(repo, recipe):
    if recipe.get('kind') == 'opeffects':
        return op_effects(repo, recipe)
    if recipe.get('kind') == 'accessors':
        return accessors(repo, recipe)
    if recipe.get('kind') == 'members':
        return members(repo, recipe)
    path = os.path.join(repo, recipe['file'])
    try:
        text = open(path, encoding='utf-8', errors='replace').read()
    except OSError as e:
        raise ExtractError('cannot read %s: %s' % (path, e))
    header, body, line = locate(text, recipe)
    fired = []
    sha = hashlib.sha256((header + body).encode()).hexdigest()
    kind = recipe.get('kind', 'function')
    new = apply_recipe(body, recipe, fired)
    if kind == 'function':
        if recipe.get('body_only'):
            b = new.find('{')
            e = new.rfind('}')
            out = new[b + 1:e]
        else:
            emit = recipe.get('emit')
            if emit is None:
                emit = strip_comments(header)
            out = emit + '\n' + new
    else:
        out = new
    out = (recipe.get('pre') or '') + out + (recipe.get('post') or '')
    info = {
        'file': recipe['file'], 'line': line, 'kind': kind,
        'what': recipe.get('sig') or recipe.get('name') or recipe.get('start'),
        'sha256': sha, 'rules': fired,
        'source_header': ' '.join(header.split()),
    }
    tag = '/* ---- extracted from %s:%d (sha256 %s) ---- */\n' % (recipe['file'], line, sha[:16])
    return tag + '#line %d "%s"\n' % (line, path) * 0 + out + '\n/* ---- end of extract ---- */\n', info


DIRECTIVE = re.compile(r'/\*@(extract|unit)\s*(\{.*?\})\s*@\*/', re.S)
INCLUDE = re.compile(r'/\*@include\s+([\w./-]+)\s*@\*/')


def splice_includes(text, basedir):
    """/*@include name@*/ -> contents of spec/<name> (a template fragment that may itself contain directives)."""
    for _ in range(8):
        m = INCLUDE.search(text)
        if not m:
            return text
        inc = open(os.path.join(basedir, m.group(1))).read()
        text = text[:m.start()] + inc + text[m.end():]
    raise ExtractError('include nesting too deep')


def expand_template(repo, template_text, defines=None, basedir=None):
    """Return (c_text, units, extracts_info)."""
    units = []
    infos = []

    def f(m):
        try:
            d = ast.literal_eval(m.group(2))
        except Exception as e:
            raise ExtractError('bad directive dict: %s\n%s' % (e, m.group(2)[:200]))
        if m.group(1) == 'unit':
            units.append(d)
            return ''
        cond = d.get('if')
        if cond:
            k, _, v = cond.partition('=')
            have = (defines or {}).get(k)
            if have is None or (v and str(have) != v):
                return ''
        txt, info = extract(repo, d)
        infos.append(info)
        return txt
    if basedir:
        template_text = splice_includes(template_text, basedir)
    out = DIRECTIVE.sub(f, template_text)
    return out, units, infos


def scan_units(template_text):
    units = []
    for m in DIRECTIVE.finditer(template_text):
        if m.group(1) == 'unit':
            units.append(ast.literal_eval(m.group(2)))
    return units


if __name__ == '__main__':
    repo, tmpl = sys.argv[1], sys.argv[2]
    out, units, infos = expand_template(repo, open(tmpl).read())
    sys.stdout.write(out)
    sys.stderr.write('%d units, %d extracts\n' % (len(units), len(infos)))
